#!/bin/bash
# usage: seedimport.sh <agent-worktree> : import every _seed/<Cxx-k>/ of a sub-agent under the next free id of /verif/seeded, confirming each in a throw-away worktree of /repo HEAD
src=$1
for d in $src/_seed/*/; do
  old=$(basename $d); prop=${old%%-*}
  n=1; while [ -e /verif/seeded/$prop-$n ]; do n=$((n+1)); done
  id=$prop-$n
  mkdir -p /verif/seeded/$id && cp $d/patch.diff $d/demo_test.go $d/README.md /verif/seeded/$id/ 2>/dev/null
  pkg=$(head -1 /verif/seeded/$id/demo_test.go | sed 's/.*package dir: *//; s/ .*//')
  wt=/scratch/confirm_$id
  git -C /repo worktree add -q --detach $wt HEAD
  echo "== $id (agent id $old) pkg=$pkg"
  /verif/seedconfirm2.sh $wt /verif/seeded/$id $pkg 2>&1 | sed 's/^/   /'
  git -C /repo worktree remove --force $wt; git -C /repo worktree prune
done
