#!/bin/bash
# usage: seedcheck.sh <prop> <patch.diff> [tier]  -- applies a seeded change to /repo, runs the check, reverts
prop=$1; patch=$2; tier=${3:-quick}
cd /repo || exit 2
if [ -n "$(git status --porcelain)" ]; then echo "REPO DIRTY"; git status --short; exit 2; fi
git apply "$patch" 2>/dev/null || git apply --3way "$patch" 2>/dev/null || { echo "APPLY FAILED"; git reset -q; git checkout -- .; exit 2; }
cd /verif && GOVC_NO_EVIDENCE=1 ./check $prop $tier 2>&1 | grep -E "VIOLATION|SUMMARY|UNDECIDED" | sed 's/replay=[^ ]* //' | cut -c1-260
cd /repo && git reset -q && git checkout -- . && git status --short | head -3
