#!/bin/bash
# usage: seedcheck.sh <prop> <patch.diff> [tier]
# Runs the registered check of <prop> against a seeded change WITHOUT touching /repo: the
# change is applied to a throw-away worktree of /repo's HEAD (contracts included), govc is
# pointed at it with -repo, the worktree is removed afterwards. No evidence is written.
prop=$1; patch=$(realpath "$2"); tier=${3:-quick}
wt=/scratch/seedwt.$$
mkdir -p /scratch
git -C /repo worktree add -q --detach $wt HEAD || exit 2
( cd $wt && (git apply "$patch" 2>/dev/null || git apply --3way "$patch" 2>/dev/null) ) || { echo "APPLY FAILED"; git -C /repo worktree remove --force $wt; exit 2; }
GOFLAGS=-mod=mod GOPROXY=off /verif/bin/govc check -prop $prop -tier $tier -repo $wt -verif /verif -no-evidence 2>&1 | grep -E "VIOLATION|SUMMARY|UNDECIDED" | sed 's/replay=[^ ]* //' | cut -c1-260
git -C /repo worktree remove --force $wt; git -C /repo worktree prune
