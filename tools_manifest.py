#!/usr/bin/env python3
"""Maintain /verif/MANIFEST.json: tools_manifest.py add <pid> <category> <design_ref> <<< JSON{text,note,technique}"""
import json,sys
m=json.load(open('/verif/MANIFEST.json'))
cmd=sys.argv[1]
if cmd=='add':
    pid,level,ref=sys.argv[2:5]
    d=json.load(sys.stdin)
    m['checks']=[c for c in m['checks'] if c['property_id']!=pid]
    m['checks'].append({"property_id":pid,"quick_cmd":f"./check {pid} quick","thorough_cmd":f"./check {pid} thorough","evidence_file":f"/verif/evidence/{pid}.json","engine":"govc",
      "level_claimed":{"category":level,"text":d['text'],"design_ref":ref},"level_note":d['note'],"technique":d.get('technique',"contract-based deductive verification: WP over go/ssa, SMT (z3 5.1 / cvc5 1.0)")})
    m['checks'].sort(key=lambda c:c['property_id'])
    m['not_applicable']=[x for x in m['not_applicable'] if x['property_id']!=pid]
    m['engines'][0]['serves_properties']=sorted(set(m['engines'][0]['serves_properties']+[pid]))
elif cmd=='na':
    pid=sys.argv[2]; reason=sys.argv[3]
    m['not_applicable']=[x for x in m['not_applicable'] if x['property_id']!=pid]+[{"property_id":pid,"reason":reason}]
    m['not_applicable'].sort(key=lambda c:c['property_id'])
json.dump(m,open('/verif/MANIFEST.json','w'),indent=1)
