#!/bin/bash
# usage: runall.sh [quick|thorough]  -- runs every registered check on /repo's working tree, prints one SUMMARY per property
tier=${1:-quick}
cd /verif
for p in $(python3 -c "import json;print(' '.join(c['property_id'] for c in json.load(open('MANIFEST.json'))['checks']))"); do
  s=$(date +%s)
  out=$(./check $p $tier 2>&1); rc=$?
  echo "$p rc=$rc $(( $(date +%s)-s ))s $(echo "$out" | grep -E 'SUMMARY' | cut -c1-160)"
  echo "$out" | grep -E 'VIOLATION|UNDECIDED|KNOWN-FINDING' | sed 's/replay=[^ ]* //' | cut -c1-220
done
