#!/bin/bash
# usage: seedconfirm.sh <worktree> <changedir> : confirm a seeded change in its scratch worktree
wt=$1; cd=$2
export GOFLAGS=-mod=mod GOPROXY=off
cd $wt || exit 2
git checkout -q -- . 2>/dev/null; find . -name verif_contracts.go -delete 2>/dev/null
pkg=$(grep -m1 -oE "(Copy[^:]*:|into:)\s+\S+/" $cd/demo_test.go | grep -oE "\S+/$")
run=$(grep -m1 -oE "\-run '[^']+'" $cd/demo_test.go | sed "s/-run '//; s/'//")
[ -z "$pkg" ] && { echo "no pkg"; exit 2; }
cp $cd/demo_test.go $pkg/zz_seed_demo_test.go
echo -n "clean: "; go test -count=1 -run "$run" ./$pkg 2>&1 | tail -1 | cut -c1-100
git apply $cd/patch.diff 2>/dev/null || git apply --3way $cd/patch.diff || echo "APPLY FAILED"
echo -n "build: "; go build ./... 2>&1 | tail -1; echo
echo -n "seeded demo: "; go test -count=1 -run "$run" ./$pkg 2>&1 | tail -1 | cut -c1-100
rm -f $pkg/zz_seed_demo_test.go
echo -n "seeded existing tests: "; go test -count=1 ./$pkg 2>&1 | tail -1 | cut -c1-100
git reset -q; git checkout -q -- . ; find . -name verif_contracts.go -delete 2>/dev/null
