// bounded: pkg=config run=TestVerifBoundedValidate bound=templates from 5x3 strings (empty, blank, without/with {id}); 0..3 stores with ids in {0,1,2}; 0..1 regions exhaustively and a thinned set of 2-region lists, each region with id in {0,5}, leader store in {0,1,3} and 0..2 peers with store id in {0,1,3} and peer id in {0,7}
package config

// Bounded stand-in for C38 (the deductive contract of File.Validate - nested
// forall/exists loop invariants - does not discharge). The REAL Validate is run on every
// topology within the bound and compared with wellFormed, which is transcribed from the
// property statement, not from the code.

import (
	"fmt"
	"strings"
	"testing"
)

func verifWellFormed(f *File) bool {
	tmplOK := func(s string) bool {
		v := strings.TrimSpace(s)
		return v == "" || strings.Contains(v, "{id}")
	}
	if !tmplOK(f.StoreWorkDirTemplate) || !tmplOK(f.StoreDockerWorkDirTemplate) {
		return false
	}
	known := map[uint64]bool{}
	for _, s := range f.Stores {
		if s.StoreID == 0 || known[s.StoreID] {
			return false // zero or duplicate store id
		}
		known[s.StoreID] = true
	}
	for _, r := range f.Regions {
		if r.ID == 0 {
			return false
		}
		if r.LeaderStoreID != 0 && !known[r.LeaderStoreID] {
			return false // region refers to an unknown store
		}
		for _, p := range r.Peers {
			if p.StoreID == 0 || p.PeerID == 0 || !known[p.StoreID] {
				return false
			}
		}
	}
	return true
}

func TestVerifBoundedValidate(t *testing.T) {
	t1 := []string{"", "  ", "x", "a{id}b", " {id} "}
	t2 := []string{"", "data", "/d/{id}"}
	var storeLists [][]Store
	storeLists = append(storeLists, nil)
	ids := []uint64{0, 1, 2}
	for _, a := range ids {
		storeLists = append(storeLists, []Store{{StoreID: a}})
		for _, b := range ids {
			storeLists = append(storeLists, []Store{{StoreID: a}, {StoreID: b}})
			for _, c := range ids {
				storeLists = append(storeLists, []Store{{StoreID: a}, {StoreID: b}, {StoreID: c}})
			}
		}
	}
	var peerLists [][]Peer
	peerLists = append(peerLists, nil)
	var peers []Peer
	for _, s := range []uint64{0, 1, 3} {
		for _, p := range []uint64{0, 7} {
			peers = append(peers, Peer{StoreID: s, PeerID: p})
		}
	}
	for _, a := range peers {
		peerLists = append(peerLists, []Peer{a})
		for _, b := range peers {
			peerLists = append(peerLists, []Peer{a, b})
		}
	}
	var regions []Region
	for _, id := range []uint64{0, 5} {
		for _, leader := range []uint64{0, 1, 3} {
			for _, pl := range peerLists {
				regions = append(regions, Region{ID: id, LeaderStoreID: leader, Peers: pl})
			}
		}
	}
	var regionLists [][]Region
	regionLists = append(regionLists, nil)
	for _, r := range regions {
		regionLists = append(regionLists, []Region{r})
	}
	for i, a := range regions {
		if i%7 != 0 {
			continue
		}
		for j, b := range regions {
			if j%7 != 3 {
				continue
			}
			regionLists = append(regionLists, []Region{a, b})
		}
	}
	cases, accepted, rejected := 0, 0, 0
	samples := 0
	for _, a := range t1 {
		for _, b := range t2 {
			for _, sl := range storeLists {
				for _, rl := range regionLists {
					f := &File{StoreWorkDirTemplate: a, StoreDockerWorkDirTemplate: b, Stores: sl, Regions: rl}
					want := verifWellFormed(f)
					got := f.Validate() == nil
					cases++
					if want {
						accepted++
					} else {
						rejected++
					}
					if got != want {
						t.Fatalf("Validate accepts=%v, the property says well-formed=%v for templates %q/%q stores=%+v regions=%+v", got, want, a, b, sl, rl)
					}
					if samples < 4 && cases%250007 == 1 {
						samples++
						fmt.Printf("BOUNDED-SAMPLE templates=%q/%q stores=%+v regions=%+v wellFormed=%v\n", a, b, sl, rl, want)
					}
				}
			}
		}
	}
	if (*File)(nil).Validate() == nil {
		t.Fatalf("nil file accepted")
	}
	// non-trivial by rule: every enumerated topology is distinct by construction; those that
	// are rejected, plus those accepted with at least one store, count (the empty topology
	// and pure template variations of it do not)
	nontrivial := rejected
	if accepted > 15 {
		nontrivial += accepted - 15
	}
	fmt.Printf("BOUNDED-CASES %d\n", cases)
	fmt.Printf("BOUNDED-NONTRIVIAL %d\n", nontrivial)
}
