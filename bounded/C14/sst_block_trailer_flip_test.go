// bounded: pkg=lsm run=TestVerifBoundedBlockTrailerFlip bound=one-block tables holding one entry with a value of 1..96 bytes (block lengths in steps of one byte); every single-bit flip of the block's last 12 bytes (8-byte checksum and 4-byte checksum length) and of the 4-byte entry count before them, read back through the real table.loadBlock with the block cache emptied
package lsm

// Bounded stand-in for the part of C14's SST clause that the loadBlock contract leaves out
// (its slice-bounds obligations are switched off, and verifyCheckSum is a trusted leaf): a
// flipped bit in the block trailer - the fields loadBlock reads BEFORE the checksum can have
// been verified - must end as an error from loadBlock, never as a panic and never as a block.

import (
	"fmt"
	"os"
	"testing"

	"github.com/feichai0017/NoKV/kv"
	"github.com/feichai0017/NoKV/utils"
	"github.com/feichai0017/NoKV/wal"
)

func TestVerifBoundedBlockTrailerFlip(t *testing.T) {
	cases, nontrivial := 0, 0
	sample := ""
	dir := t.TempDir()
	o := *opt
	o.WorkDir = dir
	o.BlockCacheSize = 64
	o.DiscardStatsCh = nil
	wlog, err := wal.Open(wal.Config{Dir: dir})
	if err != nil {
		t.Fatalf("open wal: %v", err)
	}
	lsm := NewLSM(&o, wlog)
	defer func() { _ = lsm.Close() }()
	for vlen := 1; vlen <= 96; vlen++ {
		builderOpt := o
		builderOpt.BlockSize = 4096
		builder := newTableBuiler(&builderOpt)
		val := make([]byte, vlen)
		for i := range val {
			val[i] = byte('a' + i%26)
		}
		builder.AddKey(kv.NewEntry(kv.KeyWithTs([]byte("k"), 1), val))
		name := utils.FileNameSSTable(dir, uint64(1000+vlen))
		tbl := openTable(lsm.levels, name, builder)
		if tbl == nil {
			t.Fatalf("value length %d: no table", vlen)
		}
		ko, ok := tbl.blockOffset(0)
		if !ok || ko == nil {
			t.Fatalf("no block 0")
		}
		blockLen := int(ko.GetLen())
		drop := func() {
			if lsm.levels.cache == nil || lsm.levels.cache.blocks == nil {
				return
			}
			lsm.levels.cache.blocks.rc.Wait()
			lsm.levels.cache.blocks.rc.Del(tbl.blockCacheKey(0))
			lsm.levels.cache.blocks.rc.Wait()
		}
		drop()
		if _, err := tbl.loadBlock(0); err != nil {
			t.Fatalf("value length %d: healthy block does not load: %v", vlen, err)
		}
		f, err := os.OpenFile(name, os.O_RDWR, 0)
		if err != nil {
			t.Fatal(err)
		}
		for back := 1; back <= 16 && back <= blockLen; back++ {
			off := int(ko.GetOffset()) + blockLen - back
			orig, err := tbl.read(off, 1)
			if err != nil {
				t.Fatal(err)
			}
			ob := orig[0]
			for bit := 0; bit < 8; bit++ {
				cases++
				if _, err := f.WriteAt([]byte{ob ^ (1 << bit)}, int64(off)); err != nil {
					t.Fatal(err)
				}
				drop()
				func() {
					defer func() {
						if r := recover(); r != nil {
							t.Fatalf("block of %d bytes, bit %d of the byte %d from its end flipped: loadBlock panics (%v) instead of reporting the corruption", blockLen, bit, back, r)
						}
					}()
					blk, err := tbl.loadBlock(0)
					if err == nil {
						t.Fatalf("block of %d bytes, bit %d of the byte %d from its end flipped: loadBlock returns a block (%v) without error", blockLen, bit, back, blk != nil)
					}
				}()
				if back <= 4 {
					nontrivial++
					if sample == "" {
						sample = fmt.Sprintf("block of %d bytes, checksum-length byte %d from the end, bit %d", blockLen, back, bit)
					}
				}
			}
			if _, err := f.WriteAt([]byte{ob}, int64(off)); err != nil {
				t.Fatal(err)
			}
		}
		_ = f.Close()
		drop()
		_ = tbl.DecrRef()
	}
	fmt.Printf("BOUNDED-CASES %d\nBOUNDED-NONTRIVIAL %d\nBOUNDED-SAMPLE %s\n", cases, nontrivial, sample)
}
