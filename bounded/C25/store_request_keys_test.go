// bounded: pkg=raftstore/store run=TestVerifBoundedRequestKeys bound=region ranges over start/end in {"", "b", "m"}; keys in {"", "a", "b", "c", "m", "z"}; 1..2 requests per command, each nil, of an unknown type, or one of the 7 command kinds with 0..2 keys (nil mutations included); scan responses with 0..3 pairs (nil pairs included)
package store

// Bounded stand-in for the two C25 functions whose deductive contracts do not discharge
// (validateRequestKeys: nested loops over oneof getters, parked as X25) or were not
// written (trimScanResponse). The REAL functions are run on every case within the bound and
// compared with predicates transcribed from the property statement: a command is accepted
// only if every key it names lies inside the region's range; scan results never contain
// keys outside it. (An empty key names nothing, as in the keyInRange contract.)

import (
	"bytes"
	"fmt"
	"testing"

	"github.com/feichai0017/NoKV/manifest"
	"github.com/feichai0017/NoKV/pb"
)

func verifOwns(meta manifest.RegionMeta, key []byte) bool {
	if len(key) == 0 {
		return true
	}
	if len(meta.StartKey) > 0 && bytes.Compare(key, meta.StartKey) < 0 {
		return false
	}
	if len(meta.EndKey) > 0 && bytes.Compare(key, meta.EndKey) >= 0 {
		return false
	}
	return true
}

type verifCmd struct {
	req  *pb.Request
	keys [][]byte
	ok   bool // known command kind (or nil request)
	desc string
}

func TestVerifBoundedRequestKeys(t *testing.T) {
	alphabet := [][]byte{nil, []byte("a"), []byte("b"), []byte("c"), []byte("m"), []byte("z")}
	var keyLists [][][]byte
	keyLists = append(keyLists, nil)
	for _, a := range alphabet {
		keyLists = append(keyLists, [][]byte{a})
		for _, b := range alphabet {
			keyLists = append(keyLists, [][]byte{a, b})
		}
	}
	var cmds []verifCmd
	cmds = append(cmds, verifCmd{req: nil, ok: true, desc: "nil"})
	cmds = append(cmds, verifCmd{req: &pb.Request{CmdType: pb.CmdType(99)}, ok: false, desc: "unknown-kind"})
	for _, k := range alphabet {
		cmds = append(cmds, verifCmd{req: &pb.Request{CmdType: pb.CmdType_CMD_GET, Cmd: &pb.Request_Get{Get: &pb.GetRequest{Key: k}}}, keys: [][]byte{k}, ok: true, desc: fmt.Sprintf("get %q", k)})
		cmds = append(cmds, verifCmd{req: &pb.Request{CmdType: pb.CmdType_CMD_SCAN, Cmd: &pb.Request_Scan{Scan: &pb.ScanRequest{StartKey: k}}}, keys: [][]byte{k}, ok: true, desc: fmt.Sprintf("scan %q", k)})
		cmds = append(cmds, verifCmd{req: &pb.Request{CmdType: pb.CmdType_CMD_CHECK_TXN_STATUS, Cmd: &pb.Request_CheckTxnStatus{CheckTxnStatus: &pb.CheckTxnStatusRequest{PrimaryKey: k}}}, keys: [][]byte{k}, ok: true, desc: fmt.Sprintf("check %q", k)})
	}
	for _, kl := range keyLists {
		var muts []*pb.Mutation
		for _, k := range kl {
			muts = append(muts, &pb.Mutation{Key: k})
		}
		cmds = append(cmds, verifCmd{req: &pb.Request{CmdType: pb.CmdType_CMD_PREWRITE, Cmd: &pb.Request_Prewrite{Prewrite: &pb.PrewriteRequest{Mutations: muts}}}, keys: kl, ok: true, desc: fmt.Sprintf("prewrite %q", kl)})
		if len(muts) == 2 {
			cmds = append(cmds, verifCmd{req: &pb.Request{CmdType: pb.CmdType_CMD_PREWRITE, Cmd: &pb.Request_Prewrite{Prewrite: &pb.PrewriteRequest{Mutations: []*pb.Mutation{nil, muts[1]}}}}, keys: kl[1:], ok: true, desc: fmt.Sprintf("prewrite nil,%q", kl[1])})
		}
		cmds = append(cmds, verifCmd{req: &pb.Request{CmdType: pb.CmdType_CMD_COMMIT, Cmd: &pb.Request_Commit{Commit: &pb.CommitRequest{Keys: kl}}}, keys: kl, ok: true, desc: fmt.Sprintf("commit %q", kl)})
		cmds = append(cmds, verifCmd{req: &pb.Request{CmdType: pb.CmdType_CMD_BATCH_ROLLBACK, Cmd: &pb.Request_BatchRollback{BatchRollback: &pb.BatchRollbackRequest{Keys: kl}}}, keys: kl, ok: true, desc: fmt.Sprintf("rollback %q", kl)})
		cmds = append(cmds, verifCmd{req: &pb.Request{CmdType: pb.CmdType_CMD_RESOLVE_LOCK, Cmd: &pb.Request_ResolveLock{ResolveLock: &pb.ResolveLockRequest{Keys: kl}}}, keys: kl, ok: true, desc: fmt.Sprintf("resolve %q", kl)})
	}
	bounds := [][]byte{nil, []byte("b"), []byte("m")}
	var metas []manifest.RegionMeta
	for _, s := range bounds {
		for _, e := range bounds {
			if len(s) > 0 && len(e) > 0 && bytes.Compare(s, e) >= 0 {
				continue
			}
			metas = append(metas, manifest.RegionMeta{ID: 1, StartKey: s, EndKey: e})
		}
	}
	cases, nontrivial, samples := 0, 0, 0
	want := func(meta manifest.RegionMeta, cs []verifCmd) bool {
		for _, c := range cs {
			if !c.ok {
				return false
			}
			for _, k := range c.keys {
				if !verifOwns(meta, k) {
					return false
				}
			}
		}
		return true
	}
	run := func(meta manifest.RegionMeta, cs []verifCmd) {
		req := &pb.RaftCmdRequest{}
		desc := ""
		for _, c := range cs {
			req.Requests = append(req.Requests, c.req)
			desc += " [" + c.desc + "]"
		}
		got := validateRequestKeys(meta, req) == nil
		w := want(meta, cs)
		cases++
		if !w || len(cs) > 1 {
			nontrivial++
		}
		if got != w {
			t.Fatalf("validateRequestKeys accepts=%v, the property says %v for region [%q,%q) and commands%s", got, w, meta.StartKey, meta.EndKey, desc)
		}
		if samples < 3 && cases%40009 == 1 {
			samples++
			fmt.Printf("BOUNDED-SAMPLE region=[%q,%q) commands=%s accepted=%v\n", meta.StartKey, meta.EndKey, desc, w)
		}
	}
	for _, meta := range metas {
		for _, a := range cmds {
			run(meta, []verifCmd{a})
			for _, b := range cmds {
				run(meta, []verifCmd{a, b})
			}
		}
	}
	if validateRequestKeys(metas[0], nil) != nil {
		t.Fatalf("nil command rejected")
	}
	// trimScanResponse: what survives is exactly the in-range pairs, in order
	var kvLists [][]*pb.KV
	kvLists = append(kvLists, nil)
	mk := func(k []byte) *pb.KV {
		if k == nil {
			return nil
		}
		return &pb.KV{Key: k, Value: []byte("v")}
	}
	keys2 := [][]byte{nil, []byte("a"), []byte("b"), []byte("l"), []byte("m"), []byte("z")}
	for _, a := range keys2 {
		kvLists = append(kvLists, []*pb.KV{mk(a)})
		for _, b := range keys2 {
			kvLists = append(kvLists, []*pb.KV{mk(a), mk(b)})
			for _, c := range keys2 {
				kvLists = append(kvLists, []*pb.KV{mk(a), mk(b), mk(c)})
			}
		}
	}
	for _, meta := range metas {
		for _, kvs := range kvLists {
			for _, scanFirst := range []bool{true, false} {
				in := append([]*pb.KV(nil), kvs...)
				scanReq := &pb.Request{CmdType: pb.CmdType_CMD_SCAN, Cmd: &pb.Request_Scan{Scan: &pb.ScanRequest{}}}
				getReq := &pb.Request{CmdType: pb.CmdType_CMD_GET, Cmd: &pb.Request_Get{Get: &pb.GetRequest{Key: []byte("c")}}}
				scanResp := &pb.Response{Cmd: &pb.Response_Scan{Scan: &pb.ScanResponse{Kvs: in}}}
				getResp := &pb.Response{Cmd: &pb.Response_Get{Get: &pb.GetResponse{Value: []byte("x")}}}
				req := &pb.RaftCmdRequest{Requests: []*pb.Request{scanReq, getReq}}
				resp := &pb.RaftCmdResponse{Responses: []*pb.Response{scanResp, getResp}}
				if !scanFirst {
					req.Requests = []*pb.Request{getReq, scanReq}
					resp.Responses = []*pb.Response{getResp, scanResp}
				}
				// a lock the scan ran into: on every key position; it may be reported only if the
				// locked key belongs to the region
				lockKey := keys2[1+cases%(len(keys2)-1)]
				scanResp.GetScan().Error = &pb.KeyError{Locked: &pb.Locked{Key: lockKey, PrimaryLock: lockKey, LockVersion: 7}}
				trimScanResponse(meta, req, resp)
				if gotErr := scanResp.GetScan().GetError(); (gotErr != nil) != verifOwns(meta, lockKey) {
					t.Fatalf("trimScanResponse on region [%q,%q): a scan that met a lock on %q reports error=%v; a lock is this region's business exactly when the key is inside it", meta.StartKey, meta.EndKey, lockKey, gotErr != nil)
				}
				var wantKeys [][]byte
				for _, kv := range kvs {
					if kv != nil && verifOwns(meta, kv.Key) {
						wantKeys = append(wantKeys, kv.Key)
					}
				}
				got := scanResp.GetScan().GetKvs()
				cases++
				nontrivial++
				same := len(got) == len(wantKeys)
				for i := 0; same && i < len(got); i++ {
					same = got[i] != nil && bytes.Equal(got[i].Key, wantKeys[i])
				}
				if !same || string(getResp.GetGet().GetValue()) != "x" {
					t.Fatalf("trimScanResponse on region [%q,%q): %d pairs kept, want keys %q", meta.StartKey, meta.EndKey, len(got), wantKeys)
				}
			}
		}
	}
	fmt.Printf("BOUNDED-SAMPLE trimScanResponse over %d regions x %d pair lists x 2 positions\n", len(metas), len(kvLists))
	fmt.Printf("BOUNDED-CASES %d\n", cases)
	fmt.Printf("BOUNDED-NONTRIVIAL %d\n", nontrivial)
}
