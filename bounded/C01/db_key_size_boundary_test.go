// bounded: pkg=. run=TestVerifBoundedKeySizeBoundary bound=user keys "victim"+8 zero bytes+padding of total length 14, 255, 256, 4096, 64999, 65000, 65001, 65523, 65524, 65535, 65536, 65542, 70000 and 131086 bytes, written with Set and with SetVersionedEntry (version 5) on a fresh store each
package NoKV

// Bounded stand-in for C01/C09 at the key-length boundary of the memtable index ("Get returns
// the value of the most recent successful write"; key lengths are stored in 16 bits): a write
// of a long key either fails, or the key reads back with its value - and in no case may a key
// that was never written ("victim", a prefix of the long key) become readable (defect
// repaired: a 65542-byte key was acknowledged and stored under its first 18 bytes). The
// memtable index is arena code outside the verifier, so the REAL DB is run on every length.

import (
	"bytes"
	"fmt"
	"path/filepath"
	"testing"

	"github.com/feichai0017/NoKV/kv"
)

func TestVerifBoundedKeySizeBoundary(t *testing.T) {
	sizes := []int{14, 255, 256, 4096, 64999, 65000, 65001, 65523, 65524, 65535, 65536, 65542, 70000, 131086}
	cases, nontrivial := 0, 0
	sample := ""
	for _, versioned := range []bool{false, true} {
		for _, n := range sizes {
			opt := NewDefaultOptions()
			opt.WorkDir = filepath.Join(t.TempDir(), "db")
			opt.NumCompactors = 0
			db := Open(opt)
			key := append([]byte("victim"), make([]byte, 8)...)
			key = append(key, bytes.Repeat([]byte{'p'}, n-len(key))...)
			val := []byte(fmt.Sprintf("value-of-%d", n))
			var err error
			if versioned {
				err = db.SetVersionedEntry(kv.CFDefault, key, 5, val, 0)
			} else {
				err = db.Set(key, val)
			}
			if err == nil {
				var got []byte
				if versioned {
					e, gerr := db.GetVersionedEntry(kv.CFDefault, key, 5)
					if gerr == nil && e != nil {
						got = e.Value
					}
				} else {
					e, gerr := db.Get(key)
					if gerr == nil && e != nil {
						got = e.Value
					}
				}
				if !bytes.Equal(got, val) {
					_ = db.Close()
					t.Fatalf("key of %d bytes (versioned=%v): the write returned success but the key reads back %q, want %q", n, versioned, got, val)
				}
			}
			for _, short := range [][]byte{[]byte("victim"), key[:14]} {
				if len(short) == len(key) {
					continue
				}
				var e *kv.Entry
				var gerr error
				if versioned {
					e, gerr = db.GetVersionedEntry(kv.CFDefault, short, 5)
				} else {
					e, gerr = db.Get(short)
				}
				if gerr == nil && e != nil && len(e.Value) > 0 {
					_ = db.Close()
					t.Fatalf("key of %d bytes written (versioned=%v, err=%v): key %q, which was never written, reads %q", n, versioned, err, short, e.Value)
				}
			}
			_ = db.Close()
			cases++
			if n > 65000 {
				nontrivial++
				if sample == "" {
					sample = fmt.Sprintf("key of %d bytes: write refused=%v; the prefix key stays absent", n, err != nil)
				}
			}
		}
	}
	fmt.Printf("BOUNDED-CASES %d\n", cases)
	fmt.Printf("BOUNDED-NONTRIVIAL %d\n", nontrivial)
	fmt.Printf("BOUNDED-SAMPLE %s\n", sample)
}
