// bounded: pkg=lsm run=TestVerifBoundedMergeIterator bound=2..4 sorted sources, each any subset of 4 internal keys (a@2, a@1, b@1, c@3), forward and reverse, Rewind+Next to the end and Seek to each key
package lsm

// Bounded stand-in for the merge iterator that compaction and reads use to combine
// sources (C01: "Get returns the value of the most recent successful write ... no matter
// when flush, compaction ... happen"). MergeIterator works on interface-typed child
// iterators with address-identity tricks (small == &mi.left), outside what the verifier
// models, so the REAL NewMergeIterator is run on every combination of sources within the
// bound. Sources are listed newest first (as every caller does); the oracle is the sorted
// union of the internal keys in which an internal key present in several sources appears
// exactly ONCE, carrying the copy of the FIRST (newest) source that has it.

import (
	"fmt"
	"testing"

	"github.com/feichai0017/NoKV/kv"
	"github.com/feichai0017/NoKV/utils"
)

type verifBoundedSliceIter struct {
	es      []*kv.Entry
	pos     int
	reverse bool
}

type verifBoundedItem struct{ e *kv.Entry }

func (i verifBoundedItem) Entry() *kv.Entry { return i.e }

func (s *verifBoundedSliceIter) Valid() bool { return s.pos >= 0 && s.pos < len(s.es) }
func (s *verifBoundedSliceIter) Item() utils.Item {
	if !s.Valid() {
		return nil
	}
	return verifBoundedItem{s.es[s.pos]}
}
func (s *verifBoundedSliceIter) Close() error { return nil }
func (s *verifBoundedSliceIter) Next() {
	if s.reverse {
		s.pos--
	} else {
		s.pos++
	}
}
func (s *verifBoundedSliceIter) Rewind() {
	if s.reverse {
		s.pos = len(s.es) - 1
	} else {
		s.pos = 0
	}
}
func (s *verifBoundedSliceIter) Seek(key []byte) {
	if s.reverse {
		s.pos = -1
		for i := len(s.es) - 1; i >= 0; i-- {
			if utils.CompareKeys(s.es[i].Key, key) <= 0 {
				s.pos = i
				return
			}
		}
		return
	}
	s.pos = len(s.es)
	for i := range s.es {
		if utils.CompareKeys(s.es[i].Key, key) >= 0 {
			s.pos = i
			return
		}
	}
}

func TestVerifBoundedMergeIterator(t *testing.T) {
	// internal keys in CompareKeys order (user key ascending, then the 8 byte suffix)
	uni := [][]byte{kv.KeyWithTs([]byte("a"), 2), kv.KeyWithTs([]byte("a"), 1), kv.KeyWithTs([]byte("b"), 1), kv.KeyWithTs([]byte("c"), 3)}
	for i := 0; i+1 < len(uni); i++ {
		if utils.CompareKeys(uni[i], uni[i+1]) >= 0 {
			uni[i], uni[i+1] = uni[i+1], uni[i]
		}
	}
	for i := 0; i+1 < len(uni); i++ {
		if utils.CompareKeys(uni[i], uni[i+1]) >= 0 {
			t.Fatalf("test universe is not sorted")
		}
	}
	cases, nontrivial := 0, 0
	sample := ""
	mk := func(masks []int, reverse bool) []utils.Iterator {
		var its []utils.Iterator
		for src, m := range masks {
			si := &verifBoundedSliceIter{reverse: reverse}
			for k := range uni {
				if m&(1<<k) != 0 {
					si.es = append(si.es, &kv.Entry{Key: append([]byte(nil), uni[k]...), Value: []byte{byte('0' + src)}})
				}
			}
			its = append(its, si)
		}
		return its
	}
	// expected (key index, source) list from position `from` on, in iteration order
	expect := func(masks []int, reverse bool, fromKey int) (out [][2]int) {
		add := func(k int) {
			for src, m := range masks {
				if m&(1<<k) != 0 {
					out = append(out, [2]int{k, src})
					return
				}
			}
		}
		if reverse {
			for k := fromKey; k >= 0; k-- {
				add(k)
			}
		} else {
			for k := fromKey; k < len(uni); k++ {
				add(k)
			}
		}
		return
	}
	drain := func(it utils.Iterator) (out [][2]int, err error) {
		for n := 0; it.Valid(); n++ {
			if n > 4*len(uni) {
				return out, fmt.Errorf("iterator does not terminate")
			}
			item := it.Item()
			if item == nil || item.Entry() == nil {
				return out, fmt.Errorf("valid iterator without an entry")
			}
			e := item.Entry()
			k := -1
			for i := range uni {
				if utils.CompareKeys(uni[i], e.Key) == 0 {
					k = i
				}
			}
			if k < 0 || len(e.Value) != 1 {
				return out, fmt.Errorf("unknown entry %q", e.Key)
			}
			out = append(out, [2]int{k, int(e.Value[0] - '0')})
			it.Next()
		}
		return out, nil
	}
	same := func(a, b [][2]int) bool {
		if len(a) != len(b) {
			return false
		}
		for i := range a {
			if a[i] != b[i] {
				return false
			}
		}
		return true
	}
	var rec func(masks []int, n int)
	rec = func(masks []int, n int) {
		if len(masks) == n {
			for _, reverse := range []bool{false, true} {
				start := 0
				if reverse {
					start = len(uni) - 1
				}
				it := NewMergeIterator(mk(masks, reverse), reverse)
				it.Rewind()
				got, err := drain(it)
				want := expect(masks, reverse, start)
				if err != nil || !same(got, want) {
					t.Fatalf("sources (newest first, bit k = key k present) %v reverse=%v: Rewind+Next yields (key,source) %v, want %v (err=%v): a key present in several sources must appear once, from the newest source", masks, reverse, got, want, err)
				}
				cases++
				dup := false
				for k := range uni {
					c := 0
					for _, m := range masks {
						if m&(1<<k) != 0 {
							c++
						}
					}
					if c > 1 {
						dup = true
					}
				}
				if dup {
					nontrivial++
					if sample == "" && len(masks) == 3 {
						sample = fmt.Sprintf("sources %v reverse=%v -> (key,source) %v", masks, reverse, got)
					}
				}
				for k := range uni {
					it := NewMergeIterator(mk(masks, reverse), reverse)
					it.Seek(uni[k])
					got, err := drain(it)
					want := expect(masks, reverse, k)
					if err != nil || !same(got, want) {
						t.Fatalf("sources %v reverse=%v: Seek(key %d)+Next yields %v, want %v (err=%v)", masks, reverse, k, got, want, err)
					}
					cases++
				}
			}
			return
		}
		for m := 0; m < 1<<len(uni); m++ {
			rec(append(masks, m), n)
		}
	}
	for n := 2; n <= 4; n++ {
		rec(nil, n)
	}
	fmt.Printf("BOUNDED-CASES %d\n", cases)
	fmt.Printf("BOUNDED-NONTRIVIAL %d\n", nontrivial)
	fmt.Printf("BOUNDED-SAMPLE %s\n", sample)
}
