// bounded: pkg=lsm run=TestVerifBoundedL0FidOrderAfterReopen bound=one history: k=old and three more tables flushed (file ids 1..4), k=new in the active memtable (id 5), L0->L0 compaction writes id 6, flush of memtable 5, clean close/reopen; Get(k) after each step
package lsm

// Bounded stand-in (a single history, written by a seeding sub-agent that probed the unchanged
// code in round 5) kept as a canary for a recorded finding. Known finding (C01, C12): L0 recency is read off the file id, but a compaction output gets an id ABOVE the active memtable id although it holds older data; after a reopen L0 is sorted by id and the overwritten value wins the version tie.

import (
	"fmt"
	"math"
	"testing"
	"time"

	"github.com/feichai0017/NoKV/kv"
	"github.com/feichai0017/NoKV/manifest"
	"github.com/feichai0017/NoKV/wal"
	"github.com/stretchr/testify/assert"
	"github.com/stretchr/testify/require"
)

// fidOrderOpenLSM opens an LSM in dir with the package's test sizing but its own
// options value, work dir, WAL and discard-stats channel. No compactor is started:
// every maintenance step in the test is driven explicitly.
func fidOrderOpenLSM(t *testing.T, dir string) *LSM {
	t.Helper()
	o := *opt
	o.WorkDir = dir
	o.NumCompactors = 1
	ch := make(chan map[manifest.ValueLogID]int64, 16)
	o.DiscardStatsCh = &ch
	wlog, err := wal.Open(wal.Config{Dir: dir})
	require.NoError(t, err)
	l := NewLSM(&o, wlog)
	l.SetDiscardStatsCh(&ch)
	return l
}

func fidOrderClose(t *testing.T, l *LSM) {
	t.Helper()
	require.NoError(t, l.Close())
	require.NoError(t, l.wal.Close())
}

// fidOrderPlainKey is the internal key db.setEntry builds for the plain API:
// default column family, max-version sentinel.
func fidOrderPlainKey(k string) []byte {
	return kv.InternalKey(kv.CFDefault, []byte(k), math.MaxUint64)
}

// fidOrderFlush rotates the active memtable and waits until it is installed in L0.
func fidOrderFlush(t *testing.T, l *LSM) {
	t.Helper()
	l.Rotate()
	deadline := time.Now().Add(10 * time.Second)
	for time.Now().Before(deadline) {
		l.lock.RLock()
		n := len(l.immutables)
		l.lock.RUnlock()
		if n == 0 && l.FlushPending() == 0 {
			return
		}
		time.Sleep(5 * time.Millisecond)
	}
	t.Fatalf("timeout waiting for the flush to finish")
}

func fidOrderL0Fids(l *LSM) []uint64 {
	var out []uint64
	for _, tb := range l.levels.levels[0].tablesSnapshot() {
		out = append(out, tb.fid)
	}
	return out
}

// TestVerifBoundedL0FidOrderAfterReopen: C01 / C12 on the UNCHANGED tree.
//
// L0 recency is derived from file ids (levelHandler.Sort orders L0 by fid and
// searchL0SST lets the last table win a version tie), but file ids are not allocated
// in data-recency order: a memtable takes its id when it becomes active, a compaction
// output takes its id when it is built. A compaction that runs while a memtable is
// active therefore produces a table with a HIGHER id than the table that memtable is
// later flushed to, although it holds OLDER data.
//
// History: Set k=old, flush (sst 1); three more flushes (sst 2..4); Set k=new into the
// active memtable (id 5); L0->L0 compaction of sst 1..4 -> sst 6 (holds k=old); flush
// the memtable -> sst 5 (holds k=new). In memory L0 is [6,5] (append order) and
// Get(k)=new. After a clean close/reopen L0 is sorted by id -> [5,6], sst 6 is taken
// for the newest table and Get(k) returns old.
func TestVerifBoundedL0FidOrderAfterReopen(t *testing.T) {
	defer func() {
		fmt.Printf("BOUNDED-CASES 1\n")
		fmt.Printf("BOUNDED-NONTRIVIAL 1\n")
		fmt.Printf("BOUNDED-SAMPLE the history of the bound line\n")
	}()
	dir := t.TempDir()
	l := fidOrderOpenLSM(t, dir)
	closed := false
	defer func() {
		if !closed {
			_ = l.Close()
			_ = l.wal.Close()
		}
	}()

	set := func(k, v string) {
		t.Helper()
		require.NoError(t, l.Set(kv.NewEntry(fidOrderPlainKey(k), []byte(v))))
	}
	get := func(x *LSM, k string) string {
		t.Helper()
		e, err := x.Get(fidOrderPlainKey(k))
		require.NoError(t, err)
		defer e.DecrRef()
		return string(e.Value)
	}

	set("k", "old")
	fidOrderFlush(t, l)
	for _, k := range []string{"x", "y", "z"} {
		set(k, k+"1")
		fidOrderFlush(t, l)
	}
	require.Equal(t, []uint64{1, 2, 3, 4}, fidOrderL0Fids(l))

	set("k", "new") // most recent write to k; sits in the active memtable (id 5)

	// Background maintenance while that memtable is active: one L0->L0 compaction.
	// (tricky() back-dates the tables: the planner only takes tables older than 10s.)
	cd := buildCompactDef(l, 0, 0, 0)
	tricky(cd.thisLevel.tablesSnapshot())
	require.True(t, l.levels.fillTablesL0ToL0(cd))
	require.Len(t, cd.top, 4)
	require.NoError(t, l.levels.runCompactDef(0, 0, *cd))
	l.levels.compactState.Delete(cd.stateEntry())
	require.Equal(t, []uint64{6}, fidOrderL0Fids(l))
	require.Equal(t, "new", get(l, "k"), "memtable copy wins before the flush")

	// The memtable is flushed after the compaction, to a LOWER file id.
	fidOrderFlush(t, l)
	require.Equal(t, []uint64{6, 5}, fidOrderL0Fids(l))
	require.Equal(t, "new", get(l, "k"), "after the flush, before the reopen")

	// Clean close / reopen.
	fidOrderClose(t, l)
	closed = true
	re := fidOrderOpenLSM(t, dir)
	defer fidOrderClose(t, re)

	t.Logf("L0 file ids after reopen: %v", fidOrderL0Fids(re))
	assert.Equal(t, "new", get(re, "k"), "Get(k) after a clean close/reopen")
	assert.Equal(t, "x1", get(re, "x"))
	assert.Equal(t, "y1", get(re, "y"))
	assert.Equal(t, "z1", get(re, "z"))
}
