// bounded: pkg=lsm run=TestVerifBoundedIngestBufferVersionTie bound=one history: Set b=v1, Set c; flush; Set a, Set b=v2; flush; L0 compaction moves both tables into the ingest buffer; ingest-drain compaction; Get(b) after each step
package lsm

// Bounded stand-in (a single history, written by a seeding sub-agent that probed the unchanged
// code in round 5) kept as a canary for a recorded finding. Known finding (C01): the plain API rewrites a key at ONE internal version, so which copy wins a version tie must be decided by recency; the ingest buffer orders its tables by smallest key and the first hit wins, so the OLDER table answers.

import (
	"fmt"
	"math"
	"testing"
	"time"

	"github.com/feichai0017/NoKV/kv"
	"github.com/feichai0017/NoKV/lsm/compact"
	"github.com/feichai0017/NoKV/manifest"
	"github.com/feichai0017/NoKV/wal"
	"github.com/stretchr/testify/assert"
	"github.com/stretchr/testify/require"
)

// ingestTieOpenLSM opens an LSM in dir with the package's test sizing but its own
// options value, work dir, WAL and discard-stats channel. No compactor is started:
// every maintenance step in the test is driven explicitly.
func ingestTieOpenLSM(t *testing.T, dir string) *LSM {
	t.Helper()
	o := *opt
	o.WorkDir = dir
	o.NumCompactors = 1
	ch := make(chan map[manifest.ValueLogID]int64, 16)
	o.DiscardStatsCh = &ch
	wlog, err := wal.Open(wal.Config{Dir: dir})
	require.NoError(t, err)
	l := NewLSM(&o, wlog)
	l.SetDiscardStatsCh(&ch)
	return l
}

func ingestTieClose(t *testing.T, l *LSM) {
	t.Helper()
	require.NoError(t, l.Close())
	require.NoError(t, l.wal.Close())
}

// ingestTiePlainKey is the internal key db.setEntry builds for the plain API:
// default column family, max-version sentinel.
func ingestTiePlainKey(k string) []byte {
	return kv.InternalKey(kv.CFDefault, []byte(k), math.MaxUint64)
}

// ingestTieFlush rotates the active memtable and waits until it is installed in L0.
func ingestTieFlush(t *testing.T, l *LSM) {
	t.Helper()
	l.Rotate()
	deadline := time.Now().Add(10 * time.Second)
	for time.Now().Before(deadline) {
		l.lock.RLock()
		n := len(l.immutables)
		l.lock.RUnlock()
		if n == 0 && l.FlushPending() == 0 {
			return
		}
		time.Sleep(5 * time.Millisecond)
	}
	t.Fatalf("timeout waiting for the flush to finish")
}

// TestVerifBoundedIngestBufferVersionTie: C01 (plain API is last-writer-wins under
// any background maintenance) on the UNCHANGED tree.
//
// History: Set b=v1, Set c=c1, flush; Set a=a1, Set b=v2, flush. Both L0 tables are
// then moved into the ingest buffer of the base level by the regular L0 compaction.
// The two copies of b carry the same internal version, so recency has to come from
// source order, but the ingest buffer keeps its tables ordered by smallest key
// (sortShards / rebuildRanges) and search() lets the first hit win: the older table
// {b,c} sorts after the newer table {a,b} and wins. The later ingest-drain compaction
// merges iteratorsReversed(shard tables), i.e. again MinKey order, and makes the stale
// value permanent.
func TestVerifBoundedIngestBufferVersionTie(t *testing.T) {
	defer func() {
		fmt.Printf("BOUNDED-CASES 1\n")
		fmt.Printf("BOUNDED-NONTRIVIAL 1\n")
		fmt.Printf("BOUNDED-SAMPLE the history of the bound line\n")
	}()
	l := ingestTieOpenLSM(t, t.TempDir())
	defer ingestTieClose(t, l)

	set := func(k, v string) {
		t.Helper()
		require.NoError(t, l.Set(kv.NewEntry(ingestTiePlainKey(k), []byte(v))))
	}
	get := func(k string) string {
		t.Helper()
		e, err := l.Get(ingestTiePlainKey(k))
		require.NoError(t, err)
		defer e.DecrRef()
		return string(e.Value)
	}

	set("b", "v1")
	set("c", "c1")
	ingestTieFlush(t, l)
	set("a", "a1")
	set("b", "v2") // most recent write to b
	ingestTieFlush(t, l)
	require.Equal(t, 2, l.levels.levels[0].numTables())
	require.Equal(t, "v2", get("b"), "with both copies in L0")

	// Regular L0 compaction: L0 -> base level moves the tables into the ingest buffer.
	targets := l.levels.levelTargets()
	base := targets.BaseLevel
	require.Greater(t, base, 0)
	require.NoError(t, l.levels.doCompact(0, compact.Priority{
		Level: 0, Score: 5, Adjusted: 5, Target: targets,
	}))
	require.Equal(t, 0, l.levels.levels[0].numTables())
	require.Equal(t, 2, l.levels.levels[base].numIngestTables())

	assert.Equal(t, "v2", get("b"), "Get(b) after both tables moved into the ingest buffer")
	assert.Equal(t, "a1", get("a"))
	assert.Equal(t, "c1", get("c"))

	// Ingest drain: merge the ingest buffer into the level's main tables.
	require.NoError(t, l.levels.doCompact(0, compact.Priority{
		Level: base, Score: 5, Adjusted: 5, Target: l.levels.levelTargets(),
		IngestMode: compact.IngestDrain,
	}))
	require.Equal(t, 0, l.levels.levels[base].numIngestTables())
	require.Greater(t, l.levels.levels[base].numTables(), 0)

	assert.Equal(t, "v2", get("b"), "Get(b) after the ingest-drain compaction")
	assert.Equal(t, "a1", get("a"))
	assert.Equal(t, "c1", get("c"))
}
