// bounded: pkg=lsm run=TestVerifBoundedLastWriteSurvivesIngestMaintenance bound=key k first set to v1, flushed, moved to the ingest buffer and drained into the base level; then the LAST write to k (a rewrite v2 or a delete), flushed and moved to the ingest buffer; then every sequence of 0..2 ingest compactions (merge-in-place / drain); plain-API internal keys (one version per key); two neighbour keys
package lsm

// Bounded stand-in for C01 across ingest-buffer maintenance ("Get ... returns the value of
// the most recent successful write to it, or not-found if that write was a delete ... no
// matter when ... compaction (including ingest-buffer moves, ingest merges ...) happen").
// The compaction executor is outside what the verifier models, so the REAL flush, move,
// merge and drain are run on every maintenance sequence within the bound (the history is
// the one a seeding sub-agent wrote for change C01-4, generalised over the last write and
// the maintenance sequence) and Get is compared with the last write after every step.
// Uses the package's own test helpers (buildLSM, buildCompactDef).

import (
	"fmt"
	"errors"
	"math"
	"testing"
	"time"

	"github.com/feichai0017/NoKV/kv"
	"github.com/feichai0017/NoKV/lsm/compact"
	"github.com/feichai0017/NoKV/utils"
	"github.com/stretchr/testify/require"
)

func verifBoundedPlainKey(k string) []byte {
	// Same internal key the plain (non-transactional) API builds in db.setEntry.
	return kv.InternalKey(kv.CFDefault, []byte(k), math.MaxUint64)
}

func verifBoundedFlushIdle(t *testing.T, lsm *LSM) {
	t.Helper()
	deadline := time.Now().Add(5 * time.Second)
	for time.Now().Before(deadline) {
		lsm.lock.RLock()
		n := len(lsm.immutables)
		lsm.lock.RUnlock()
		if n == 0 && lsm.FlushPending() == 0 {
			return
		}
		time.Sleep(10 * time.Millisecond)
	}
	t.Fatalf("timeout waiting for flush to drain")
}

// verifBoundedVisible mirrors what DB.GetCF does with the LSM answer: a missing key or
// a tombstone is "not found", anything else is the visible value.
func verifBoundedVisible(t *testing.T, lsm *LSM, k string) (string, bool) {
	t.Helper()
	e, err := lsm.Get(verifBoundedPlainKey(k))
	if errors.Is(err, utils.ErrKeyNotFound) || e == nil {
		return "", false
	}
	require.NoError(t, err)
	defer e.DecrRef()
	if e.Meta&kv.BitDelete > 0 {
		return "", false
	}
	return string(e.Value), true
}


func TestVerifBoundedLastWriteSurvivesIngestMaintenance(t *testing.T) {
	cases, nontrivial := 0, 0
	sample := ""
	seqs := [][]compact.IngestMode{{}, {compact.IngestKeep}, {compact.IngestDrain}, {compact.IngestKeep, compact.IngestKeep}, {compact.IngestKeep, compact.IngestDrain}, {compact.IngestDrain, compact.IngestKeep}}
	for _, lastIsDelete := range []bool{true, false} {
		for _, seq := range seqs {
			verifBoundedIngestHistory(t, lastIsDelete, seq)
			cases++
			if len(seq) > 0 {
				nontrivial++
				if sample == "" && lastIsDelete {
					sample = fmt.Sprintf("set k; flush; drain; delete k; flush; move to ingest; ingest compactions %v: Get(k) stays not-found", seq)
				}
			}
		}
	}
	fmt.Printf("BOUNDED-CASES %d\n", cases)
	fmt.Printf("BOUNDED-NONTRIVIAL %d\n", nontrivial)
	fmt.Printf("BOUNDED-SAMPLE %s\n", sample)
}

func verifBoundedIngestHistory(t *testing.T, lastIsDelete bool, seq []compact.IngestMode) {
	clearDir()
	lsm := buildLSM()
	defer func() {
		w := lsm.wal
		_ = lsm.Close()
		_ = w.Close()
	}()
	const last = 6 // opt.MaxLevelNum-1, the base level for a small store
	lastLevel := lsm.levels.levels[last]
	moveL0ToIngest := func() {
		tables := lsm.levels.levels[0].tablesSnapshot()
		require.Len(t, tables, 1)
		cd := buildCompactDef(lsm, 0, 0, last)
		cd.top = tables
		cd.plan.ThisRange = getKeyRange(cd.top...)
		cd.plan.NextRange = cd.plan.ThisRange
		require.NoError(t, lsm.levels.moveToIngest(cd))
		require.Equal(t, 0, lsm.levels.levels[0].numTables())
	}
	ingestCompact := func(mode compact.IngestMode) {
		pri := compact.Priority{Level: last, Score: 5.0, Adjusted: 5.0, Target: lsm.levels.levelTargets(), IngestMode: mode}
		if err := lsm.levels.doCompact(0, pri); err != nil && !errors.Is(err, utils.ErrFillTables) { // "fill tables": the planner found nothing to do
			t.Fatalf("maintenance %v: ingest compaction %v: %v", seq, mode, err)
		}
	}
	check := func(stage string) {
		v, ok := verifBoundedVisible(t, lsm, "demo-k")
		if lastIsDelete {
			if ok {
				t.Fatalf("last write to k is a delete, maintenance %v, %s: Get(k) returns %q, want not-found", seq, stage, v)
			}
		} else if !ok || v != "v2" {
			t.Fatalf("last write to k is v2, maintenance %v, %s: Get(k) returns %q (found=%v), want v2", seq, stage, v, ok)
		}
		if v, ok := verifBoundedVisible(t, lsm, "demo-n"); !ok || v != "n1" {
			t.Fatalf("maintenance %v, %s: neighbour n reads %q (found=%v)", seq, stage, v, ok)
		}
		if v, ok := verifBoundedVisible(t, lsm, "demo-m"); !ok || v != "m1" {
			t.Fatalf("maintenance %v, %s: neighbour m reads %q (found=%v)", seq, stage, v, ok)
		}
	}
	require.NoError(t, lsm.Set(kv.NewEntry(verifBoundedPlainKey("demo-k"), []byte("v1"))))
	require.NoError(t, lsm.Set(kv.NewEntry(verifBoundedPlainKey("demo-n"), []byte("n1"))))
	lsm.Rotate()
	verifBoundedFlushIdle(t, lsm)
	moveL0ToIngest()
	ingestCompact(compact.IngestDrain)
	require.Equal(t, 0, lastLevel.numIngestTables())
	require.Equal(t, 1, lastLevel.numTables())

	lastWrite := kv.NewEntry(verifBoundedPlainKey("demo-k"), []byte("v2"))
	if lastIsDelete {
		lastWrite = kv.NewEntry(verifBoundedPlainKey("demo-k"), nil)
		lastWrite.Meta = kv.BitDelete
	}
	require.NoError(t, lsm.Set(lastWrite))
	require.NoError(t, lsm.Set(kv.NewEntry(verifBoundedPlainKey("demo-m"), []byte("m1"))))
	check("in the memtable")
	lsm.Rotate()
	verifBoundedFlushIdle(t, lsm)
	check("after the flush")
	moveL0ToIngest()
	check("after the move to the ingest buffer")
	for i, mode := range seq {
		if lastLevel.numIngestTables() == 0 {
			break
		}
		ingestCompact(mode)
		check(fmt.Sprintf("after ingest compaction %d (%v)", i+1, mode))
	}
}
