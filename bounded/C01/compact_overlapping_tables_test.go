// bounded: pkg=lsm/compact run=TestVerifBoundedOverlappingTables bound=user keys k0..k6; every sorted list of 0..3 pairwise disjoint tables [min,max] over them (plain-API internal keys); every compacted range built by RangeForTables from a table [l,r] over the same keys
package compact

// Bounded stand-in for the input selection of compactions (C01: last writer wins "no matter
// when ... compaction ... happen"): OverlappingTables must return exactly the next-level
// tables whose key span intersects the compacted range - a table left out is later joined by
// the outputs as an OVERLAPPING table of a sorted level, and reads answer from the stale
// one (defect repaired: the right bound was compared with each table's largest key, so a
// table that begins inside the range and ends beyond it was left out). The function is two
// sort.Search calls over closures, which the verifier models only by their result range,
// so the REAL function is run on every layout within the bound and compared with the set of
// intersecting tables.

import (
	"fmt"
	"math"
	"testing"

	"github.com/feichai0017/NoKV/kv"
)

func TestVerifBoundedOverlappingTables(t *testing.T) {
	const nk = 7
	ik := func(i int) []byte { return kv.InternalKey(kv.CFDefault, []byte(fmt.Sprintf("k%d", i)), math.MaxUint64) }
	type span struct{ lo, hi int }
	var layouts [][]span
	var gen func(start int, cur []span)
	gen = func(start int, cur []span) {
		layouts = append(layouts, append([]span(nil), cur...))
		if len(cur) == 3 {
			return
		}
		for lo := start; lo < nk; lo++ {
			for hi := lo; hi < nk; hi++ {
				gen(hi+1, append(cur, span{lo, hi}))
			}
		}
	}
	gen(0, nil)
	cases, nontrivial := 0, 0
	sample := ""
	for _, lay := range layouts {
		var metas []TableMeta
		for i, sp := range lay {
			metas = append(metas, TableMeta{ID: uint64(i + 1), MinKey: ik(sp.lo), MaxKey: ik(sp.hi)})
		}
		for l := 0; l < nk; l++ {
			for r := l; r < nk; r++ {
				kr := RangeForTables([]TableMeta{{ID: 99, MinKey: ik(l), MaxKey: ik(r)}})
				left, right := OverlappingTables(metas, kr)
				partial := false
				for i, sp := range lay {
					intersects := sp.lo <= r && l <= sp.hi
					selected := left <= i && i < right
					if intersects != selected {
						t.Fatalf("next-level tables %v (key indices), compacted range [k%d,k%d]: OverlappingTables returns [%d,%d), but table %d [k%d,k%d] intersects=%v", lay, l, r, left, right, i, sp.lo, sp.hi, intersects)
					}
					if intersects && (sp.hi > r || sp.lo < l) {
						partial = true
					}
				}
				if left < 0 || right > len(metas) || left > right {
					t.Fatalf("tables %v, range [k%d,k%d]: result [%d,%d) is not a sub-range", lay, l, r, left, right)
				}
				cases++
				if partial {
					nontrivial++
					if sample == "" && len(lay) == 2 {
						sample = fmt.Sprintf("tables %v, range [k%d,k%d] -> [%d,%d) (a table that only partly overlaps is selected)", lay, l, r, left, right)
					}
				}
			}
		}
	}
	fmt.Printf("BOUNDED-CASES %d\n", cases)
	fmt.Printf("BOUNDED-NONTRIVIAL %d\n", nontrivial)
	fmt.Printf("BOUNDED-SAMPLE %s\n", sample)
}
