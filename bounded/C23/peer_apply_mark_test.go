// bounded: pkg=raftstore/peer run=TestVerifBoundedApplyMark bound=committed batches of 1..4 entries with indices drawn in increasing order from {0 (skipped), 5, 6, 7, 8}, apply watermark initially done until 4
package peer

// Bounded stand-in for the apply-watermark bookkeeping behind WaitApplied (C23): while a
// committed batch is being applied (beginApply called, finishApply not yet), the apply
// watermark must not pass ANY index of the batch, so WaitApplied(i) cannot return for an
// entry that is still being applied; after finishApply it reaches the batch's last index.
// The real beginApply / finishApply run on a real utils.WaterMark.

import (
	"context"
	"fmt"
	"testing"
	"time"

	myraft "github.com/feichai0017/NoKV/raft"
	"github.com/feichai0017/NoKV/utils"
)

func TestVerifBoundedApplyMark(t *testing.T) {
	pool := []uint64{0, 5, 6, 7, 8}
	var batches [][]uint64
	var rec func(start int, cur []uint64)
	rec = func(start int, cur []uint64) {
		if len(cur) > 0 {
			batches = append(batches, append([]uint64(nil), cur...))
		}
		if len(cur) == 4 {
			return
		}
		for i := start; i < len(pool); i++ {
			next := i + 1
			if pool[i] == 0 {
				next = i // zero-index entries may repeat
				if len(cur) > 0 && cur[len(cur)-1] == 0 {
					continue
				}
			}
			rec(next, append(cur, pool[i]))
		}
	}
	rec(0, nil)
	cases, nontrivial, samples := 0, 0, 0
	for _, b := range batches {
		mark := &utils.WaterMark{Name: "verif"}
		mark.Init(nil)
		mark.SetDoneUntil(4)
		p := &Peer{applyMark: mark}
		var entries []myraft.Entry
		var first, last uint64
		for _, idx := range b {
			entries = append(entries, myraft.Entry{Index: idx})
			if idx != 0 {
				if first == 0 {
					first = idx
				}
				last = idx
			}
		}
		cases++
		if first == 0 {
			continue
		}
		nontrivial++
		p.beginApply(entries)
		if got := mark.DoneUntil(); got >= first {
			t.Fatalf("batch %v is being applied but the apply watermark already reached %d (>= its first index %d): WaitApplied would return early", b, got, first)
		}
		ctx, cancel := context.WithTimeout(context.Background(), 2*time.Millisecond)
		if err := p.WaitApplied(ctx, first); err == nil {
			cancel()
			t.Fatalf("batch %v: WaitApplied(%d) returned while the batch is still being applied", b, first)
		}
		cancel()
		p.finishApply(entries)
		// indices the batch skipped (gaps) were never begun, so the mark can pass them
		if got := mark.DoneUntil(); got < last {
			t.Fatalf("batch %v applied completely but the apply watermark is %d, want >= %d", b, got, last)
		}
		if samples < 3 && cases%11 == 1 {
			samples++
			fmt.Printf("BOUNDED-SAMPLE batch indices=%v\n", b)
		}
	}
	fmt.Printf("BOUNDED-CASES %d\n", cases)
	fmt.Printf("BOUNDED-NONTRIVIAL %d\n", nontrivial)
}
