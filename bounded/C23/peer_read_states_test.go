// bounded: pkg=raftstore/peer run=TestVerifBoundedReadStates bound=pending read tables over the request contexts {"a","b","c"} (every subset) and ReadState batches of 0..3 states whose contexts are drawn from {"", "a", "b", "c", "x"} with indices 10..12
package peer

// Bounded stand-in for handleReadStates (C23): a pending ReadIndex request is confirmed
// only by the ReadState that carries ITS request context, and with that state's index -
// an acknowledgement for another (older) request must not release it. The real
// handleReadStates runs on every table/batch within the bound.

import (
	"fmt"
	"testing"

	myraft "github.com/feichai0017/NoKV/raft"
)

func TestVerifBoundedReadStates(t *testing.T) {
	ctxs := []string{"", "a", "b", "c", "x"}
	var batches [][]myraft.ReadState
	batches = append(batches, nil)
	for i, a := range ctxs {
		batches = append(batches, []myraft.ReadState{{Index: 10, RequestCtx: []byte(a)}})
		for j, b := range ctxs {
			batches = append(batches, []myraft.ReadState{{Index: 10, RequestCtx: []byte(a)}, {Index: 11, RequestCtx: []byte(b)}})
			for k, c := range ctxs {
				if (i+j+k)%2 == 0 {
					batches = append(batches, []myraft.ReadState{{Index: 10, RequestCtx: []byte(a)}, {Index: 11, RequestCtx: []byte(b)}, {Index: 12, RequestCtx: []byte(c)}})
				}
			}
		}
	}
	keys := []string{"a", "b", "c"}
	cases, nontrivial, samples := 0, 0, 0
	for mask := 0; mask < 8; mask++ {
		for _, batch := range batches {
			p := &Peer{pendingReads: map[string]chan uint64{}}
			chans := map[string]chan uint64{}
			for i, k := range keys {
				if mask&(1<<i) != 0 {
					ch := make(chan uint64, 1)
					p.pendingReads[k] = ch
					chans[k] = ch
				}
			}
			// expected: the FIRST state carrying a pending context confirms it
			want := map[string]uint64{}
			for _, s := range batch {
				k := string(s.RequestCtx)
				if _, pending := chans[k]; pending && len(k) > 0 {
					if _, done := want[k]; !done {
						want[k] = s.Index
					}
				}
			}
			p.handleReadStates(batch)
			cases++
			if len(chans) > 0 && len(batch) > 0 {
				nontrivial++
			}
			for k, ch := range chans {
				select {
				case idx, ok := <-ch:
					w, expected := want[k]
					if !ok || !expected || idx != w {
						t.Fatalf("pending=%v batch=%v: reader %q was released with index %d (open=%v), expected release=%v index=%d", maskKeys(keys, mask), batch, k, idx, ok, expected, w)
					}
					if _, still := p.pendingReads[k]; still {
						t.Fatalf("reader %q confirmed but still pending", k)
					}
				default:
					if _, expected := want[k]; expected {
						t.Fatalf("pending=%v batch=%v: reader %q was not confirmed", maskKeys(keys, mask), batch, k)
					}
					if _, still := p.pendingReads[k]; !still {
						t.Fatalf("pending=%v batch=%v: reader %q dropped without confirmation", maskKeys(keys, mask), batch, k)
					}
				}
			}
			if samples < 3 && cases%211 == 1 {
				samples++
				fmt.Printf("BOUNDED-SAMPLE pending=%v batch=%v\n", maskKeys(keys, mask), batch)
			}
		}
	}
	fmt.Printf("BOUNDED-CASES %d\n", cases)
	fmt.Printf("BOUNDED-NONTRIVIAL %d\n", nontrivial)
}

func maskKeys(keys []string, mask int) []string {
	var out []string
	for i, k := range keys {
		if mask&(1<<i) != 0 {
			out = append(out, k)
		}
	}
	return out
}
