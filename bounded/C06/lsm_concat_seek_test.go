// bounded: pkg=lsm run=TestVerifBoundedConcatSeek bound=three flushed SSTs with disjoint, ascending key ranges (20 user keys each at version 5, 1 KiB blocks) behind one ConcatIterator; every probe (key, version) with the key stored, between stored keys, between tables or outside, version in {9,5,1}; forward and reverse Seek followed by a full scan
package lsm

// Bounded stand-in for the concatenating iterator used for the sorted levels (C06: "under any
// ... seek target ... forward or reverse ... yield exactly the live keys ... in strictly
// monotone key order"). ConcatIterator picks a table by binary search over the tables' first /
// last keys and then seeks inside it; it sits on mmap'ed table iterators, outside what the
// verifier models, so the REAL iterator is run on every probe within the bound: after
// Seek(p) a forward iterator yields exactly the entries >= p in ascending order, a reverse
// iterator exactly the entries <= p in descending order (sorted-slice oracle over the
// internal keys).

import (
	"bytes"
	"fmt"
	"os"
	"sort"
	"testing"
	"time"

	"github.com/feichai0017/NoKV/kv"
	"github.com/feichai0017/NoKV/manifest"
	"github.com/feichai0017/NoKV/utils"
	"github.com/feichai0017/NoKV/wal"
)

func TestVerifBoundedConcatSeek(t *testing.T) {
	dir := t.TempDir()
	o := &Options{
		WorkDir:             dir,
		SSTableMaxSz:        1 << 20,
		MemTableSize:        1 << 20,
		BlockSize:           1024,
		BloomFalsePositive:  0.01,
		BaseLevelSize:       10 << 20,
		LevelSizeMultiplier: 10,
		BaseTableSize:       2 << 20,
		TableSizeMultiplier: 2,
		NumLevelZeroTables:  15,
		MaxLevelNum:         7,
		NumCompactors:       1,
	}
	c := make(chan map[manifest.ValueLogID]int64, 16)
	o.DiscardStatsCh = &c
	wlog, err := wal.Open(wal.Config{Dir: dir})
	if err != nil {
		t.Fatal(err)
	}
	l := NewLSM(o, wlog)
	l.SetDiscardStatsCh(&c)
	defer func() { _ = l.Close(); _ = wlog.Close(); _ = os.RemoveAll(dir) }()

	val := bytes.Repeat([]byte("x"), 100)
	var stored [][]byte
	const perTable = 20
	for tb := 0; tb < 3; tb++ {
		for i := 0; i < perTable; i++ {
			// table tb holds key numbers 100*tb + 2i+1 (odd): gaps inside and between tables
			ik := kv.KeyWithTs([]byte(fmt.Sprintf("key%04d", 100*tb+2*i+1)), 5)
			stored = append(stored, ik)
			if err := l.Set(kv.NewEntry(append([]byte(nil), ik...), val)); err != nil {
				t.Fatal(err)
			}
		}
		l.Rotate()
		deadline := time.Now().Add(20 * time.Second)
		for l.FlushPending() != 0 && time.Now().Before(deadline) {
			time.Sleep(10 * time.Millisecond)
		}
	}
	sort.Slice(stored, func(a, b int) bool { return utils.CompareKeys(stored[a], stored[b]) < 0 })
	l.levels.levels[0].RLock()
	tables := append([]*table(nil), l.levels.levels[0].tables...)
	l.levels.levels[0].RUnlock()
	if len(tables) != 3 {
		t.Fatalf("expected three L0 tables after the flushes, have %d", len(tables))
	}
	sort.Slice(tables, func(a, b int) bool { return utils.CompareKeys(tables[a].MinKey(), tables[b].MinKey()) < 0 })
	for i := 0; i+1 < len(tables); i++ {
		if utils.CompareKeys(tables[i].MaxKey(), tables[i+1].MinKey()) >= 0 {
			t.Fatalf("the bound needs disjoint tables")
		}
	}
	var probes [][]byte
	for i := 0; i <= 300; i++ {
		for _, ver := range []uint64{9, 5, 1} {
			probes = append(probes, kv.KeyWithTs([]byte(fmt.Sprintf("key%04d", i)), ver))
		}
	}
	cases, nontrivial := 0, 0
	sample := ""
	collect := func(it *ConcatIterator) (out [][]byte) {
		for n := 0; it.Valid(); it.Next() {
			if n++; n > len(stored)+1 {
				t.Fatalf("iterator does not terminate")
			}
			out = append(out, append([]byte(nil), it.Item().Entry().Key...))
		}
		return out
	}
	same := func(a, b [][]byte) bool {
		if len(a) != len(b) {
			return false
		}
		for i := range a {
			if utils.CompareKeys(a[i], b[i]) != 0 {
				return false
			}
		}
		return true
	}
	show := func(ks [][]byte) string {
		if len(ks) == 0 {
			return "[]"
		}
		return fmt.Sprintf("[%s@%d .. %s@%d] (%d entries)", kv.ParseKey(ks[0]), kv.ParseTs(ks[0]), kv.ParseKey(ks[len(ks)-1]), kv.ParseTs(ks[len(ks)-1]), len(ks))
	}
	for _, p := range probes {
		fwd := sort.Search(len(stored), func(i int) bool { return utils.CompareKeys(stored[i], p) >= 0 })
		rev := sort.Search(len(stored), func(i int) bool { return utils.CompareKeys(stored[i], p) > 0 }) - 1
		it := NewConcatIterator(tables, &utils.Options{IsAsc: true})
		it.Seek(p)
		if got, want := collect(it), stored[fwd:]; !same(got, want) {
			t.Fatalf("forward Seek(%q@%d) then scan yields %s, want %s", kv.ParseKey(p), kv.ParseTs(p), show(got), show(want))
		}
		_ = it.Close()
		cases++
		var wantRev [][]byte
		for i := rev; i >= 0; i-- {
			wantRev = append(wantRev, stored[i])
		}
		rit := NewConcatIterator(tables, &utils.Options{IsAsc: false})
		rit.Seek(p)
		if got := collect(rit); !same(got, wantRev) {
			t.Fatalf("reverse Seek(%q@%d) then scan yields %s, want %s (the last entry <= the probe and everything before it)", kv.ParseKey(p), kv.ParseTs(p), show(got), show(wantRev))
		}
		_ = rit.Close()
		cases++
		// probes that coincide with a table's first or last key are the delicate ones
		for _, tb := range tables {
			if utils.CompareKeys(p, tb.MinKey()) == 0 || utils.CompareKeys(p, tb.MaxKey()) == 0 {
				nontrivial++
				if sample == "" {
					sample = fmt.Sprintf("Seek(%q@%d) (a table boundary key): forward %s, reverse %s", kv.ParseKey(p), kv.ParseTs(p), show(stored[fwd:]), show(wantRev))
				}
			}
		}
	}
	fmt.Printf("BOUNDED-CASES %d\n", cases)
	fmt.Printf("BOUNDED-NONTRIVIAL %d\n", nontrivial)
	fmt.Printf("BOUNDED-SAMPLE %s\n", sample)
}
