// bounded: pkg=. run=TestVerifBoundedTxnGetVsIteratorAcrossFlush bound=keys a,b,c; every assignment of {absent, empty value, value "x", written then deleted} to the three keys by committed transactions; read-only transaction before and after a memtable flush: Txn.Get of each key and a forward scan
package NoKV

// Bounded stand-in for C06's last clause ("each value equals a point read of the same key")
// across a flush: inside one read-only transaction Txn.Get and the iterator must agree with
// each other and with the last committed write - before and after the memtable is flushed
// to an SST (defect repaired: an EMPTY committed value was found in the memtable and
// reported missing by Txn.Get after the flush, while the iterator still yielded the key).
// The REAL DB runs every case within the bound.

import (
	"fmt"
	"path/filepath"
	"sort"
	"testing"
	"time"
)

func TestVerifBoundedTxnGetVsIteratorAcrossFlush(t *testing.T) {
	keys := []string{"a", "b", "c"}
	cases, nontrivial := 0, 0
	sample := ""
	for assign := 0; assign < 64; assign++ { // 4^3
		opt := NewDefaultOptions()
		opt.WorkDir = filepath.Join(t.TempDir(), "db")
		opt.NumCompactors = 0
		db := Open(opt)
		want := map[string]string{}
		present := map[string]bool{}
		a := assign
		hasEmpty := false
		for _, k := range keys {
			mode := a % 4
			a /= 4
			switch mode {
			case 1, 2, 3:
				v := ""
				if mode == 2 {
					v = "x"
				}
				if mode == 1 {
					hasEmpty = true
				}
				if err := db.Update(func(txn *Txn) error { return txn.Set([]byte(k), []byte(v)) }); err != nil {
					t.Fatal(err)
				}
				want[k], present[k] = v, true
				if mode == 3 {
					if err := db.Update(func(txn *Txn) error { return txn.Delete([]byte(k)) }); err != nil {
						t.Fatal(err)
					}
					delete(want, k)
					present[k] = false
				}
			}
		}
		check := func(stage string) {
			txn := db.NewTransaction(false)
			defer txn.Discard()
			for _, k := range keys {
				item, err := txn.Get([]byte(k))
				if present[k] {
					if err != nil {
						t.Fatalf("assignment %d (base 4 per key: 0 absent, 1 empty value, 2 \"x\", 3 deleted), %s: Txn.Get(%q) fails with %v, the last committed write is the value %q", assign, stage, k, err, want[k])
					}
					v, _ := item.ValueCopy(nil)
					if string(v) != want[k] {
						t.Fatalf("assignment %d, %s: Txn.Get(%q) = %q, want %q", assign, stage, k, v, want[k])
					}
				} else if err == nil {
					t.Fatalf("assignment %d, %s: Txn.Get(%q) finds a key that is absent or deleted", assign, stage, k)
				}
			}
			it := txn.NewIterator(IteratorOptions{})
			defer it.Close()
			var got []string
			for it.Rewind(); it.Valid(); it.Next() {
				v, _ := it.Item().ValueCopy(nil)
				got = append(got, fmt.Sprintf("%s=%q", it.Item().Entry().Key, v))
			}
			var exp []string
			var ks []string
			for k := range want {
				ks = append(ks, k)
			}
			sort.Strings(ks)
			for _, k := range ks {
				exp = append(exp, fmt.Sprintf("%s=%q", k, want[k]))
			}
			if fmt.Sprint(got) != fmt.Sprint(exp) {
				t.Fatalf("assignment %d, %s: the scan yields %v, point reads and the last writes say %v", assign, stage, got, exp)
			}
		}
		check("before the flush")
		db.lsm.Rotate()
		deadline := time.Now().Add(10 * time.Second)
		for db.lsm.FlushPending() != 0 && time.Now().Before(deadline) {
			time.Sleep(5 * time.Millisecond)
		}
		check("after the flush")
		_ = db.Close()
		cases++
		if hasEmpty {
			nontrivial++
			if sample == "" {
				sample = fmt.Sprintf("assignment %d: an empty committed value is read by Get and by the scan before and after the flush", assign)
			}
		}
	}
	fmt.Printf("BOUNDED-CASES %d\n", cases)
	fmt.Printf("BOUNDED-NONTRIVIAL %d\n", nontrivial)
	fmt.Printf("BOUNDED-SAMPLE %s\n", sample)
}
