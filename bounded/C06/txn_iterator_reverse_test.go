// bounded: pkg=. run=TestVerifBoundedTxnIteratorReverse bound=keys {"a","b"}; every history of 1..3 committed single-key transactions, each a put or a delete of one key; then one read-only transaction iterating in REVERSE over all keys
package NoKV

// Bounded stand-in for C06 (REVERSE transaction iterator, default options): the iterator
// yields exactly the live keys of its snapshot in ascending key order, each once, at its
// newest value. The REAL DB and iterator run every history within the bound.

import (
	"fmt"
	"path/filepath"
	"sort"
	"testing"
)

type verifIterOpR struct {
	key string
	del bool
}

func verifIterateR(t *testing.T, hist []verifIterOpR, reverse bool) ([]string, map[string]string) {
	opt := NewDefaultOptions()
	opt.WorkDir = filepath.Join(t.TempDir(), "db")
	opt.NumCompactors = 0
	db := Open(opt)
	defer func() { _ = db.Close() }()
	want := map[string]string{}
	for i, op := range hist {
		txn := db.NewTransaction(true)
		var err error
		if op.del {
			err = txn.Delete([]byte(op.key))
			delete(want, op.key)
		} else {
			val := fmt.Sprintf("%s%d", op.key, i)
			err = txn.Set([]byte(op.key), []byte(val))
			want[op.key] = val
		}
		if err != nil {
			t.Fatalf("op %+v: %v", op, err)
		}
		if err := txn.Commit(); err != nil {
			t.Fatalf("commit %+v: %v", op, err)
		}
	}
	rtxn := db.NewTransaction(false)
	defer rtxn.Discard()
	it := rtxn.NewIterator(IteratorOptions{Reverse: reverse})
	defer it.Close()
	var got []string
	for it.Rewind(); it.Valid(); it.Next() {
		item := it.Item()
		e := item.Entry()
		got = append(got, fmt.Sprintf("%s=%s", e.Key, e.Value))
	}
	return got, want
}

func verifIterCheckR(t *testing.T, hist []verifIterOpR, reverse bool) {
	got, want := verifIterateR(t, hist, reverse)
	var keys []string
	for k := range want {
		keys = append(keys, k)
	}
	sort.Strings(keys)
	if reverse {
		sort.Sort(sort.Reverse(sort.StringSlice(keys)))
	}
	var exp []string
	for _, k := range keys {
		exp = append(exp, k+"="+want[k])
	}
	if fmt.Sprint(got) != fmt.Sprint(exp) {
		t.Fatalf("history %+v reverse=%v: iterator yields %v, the live snapshot is %v", hist, reverse, got, exp)
	}
}

func TestVerifBoundedTxnIteratorReverse(t *testing.T) {
	keys := []string{"a", "b"}
	var ops []verifIterOpR
	for _, k := range keys {
		ops = append(ops, verifIterOpR{k, false}, verifIterOpR{k, true})
	}
	cases, nontrivial, samples := 0, 0, 0
	var rec func(cur []verifIterOpR)
	rec = func(cur []verifIterOpR) {
		if len(cur) > 0 {
			verifIterCheckR(t, cur, true)
			cases++
			if len(cur) > 1 {
				nontrivial++
			}
			if samples < 3 && cases%41 == 1 {
				samples++
				fmt.Printf("BOUNDED-SAMPLE history=%+v\n", cur)
			}
		}
		if len(cur) == 3 {
			return
		}
		for _, o := range ops {
			rec(append(append([]verifIterOpR(nil), cur...), o))
		}
	}
	rec(nil)
	fmt.Printf("BOUNDED-CASES %d\n", cases)
	fmt.Printf("BOUNDED-NONTRIVIAL %d\n", nontrivial)
}
