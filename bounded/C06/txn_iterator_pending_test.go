// bounded: pkg=. run=TestVerifBoundedTxnIteratorPending bound=keys {"a","a\x00","a\xff","b"} (byte-prefixes of each other, 0x00/0xFF); every subset committed by one transaction, then an update transaction with every assignment of {untouched, put, delete} to the four keys iterating FORWARD over all keys, and seeking to each key
package NoKV

// Bounded stand-in for the pending-write half of C06 ("pending writes ... keys that are
// byte-prefixes of each other and keys containing 0x00/0xFF"): inside an update
// transaction the forward iterator yields exactly the live keys of the snapshot overlaid
// with the transaction's own writes, in ascending key order, each once, at its newest value
// (own write first), and a forward Seek(k) starts at the first such key >= k. The REAL DB,
// transaction and iterator run on every case within the bound (defect repaired: the
// buffered writes were ordered with bytes.Compare on internal keys, which differs from the
// internal-key order for prefix-related user keys).

import (
	"fmt"
	"path/filepath"
	"sort"
	"testing"
)

func TestVerifBoundedTxnIteratorPending(t *testing.T) {
	keys := []string{"a", "a\x00", "a\xff", "b"}
	opt := NewDefaultOptions()
	opt.WorkDir = filepath.Join(t.TempDir(), "db")
	opt.NumCompactors = 0
	opt.WriteHotKeyLimit = 0 // the bound rewrites four keys thousands of times
	db := Open(opt)
	defer func() { _ = db.Close() }()
	cases, nontrivial := 0, 0
	sample := ""
	round := 0
	for committed := 0; committed < 1<<len(keys); committed++ {
		// bring the committed state to exactly `committed` (delete the rest)
		round++
		base := map[string]string{}
		setup := db.NewTransaction(true)
		for i, k := range keys {
			if committed&(1<<i) != 0 {
				v := fmt.Sprintf("c%d", round)
				if err := setup.Set([]byte(k), []byte(v)); err != nil {
					t.Fatal(err)
				}
				base[k] = v
			} else if err := setup.Delete([]byte(k)); err != nil {
				t.Fatal(err)
			}
		}
		if err := setup.Commit(); err != nil {
			t.Fatal(err)
		}
		for assign := 0; assign < 81; assign++ { // 3^4 assignments
			want := map[string]string{}
			for k, v := range base {
				want[k] = v
			}
			txn := db.NewTransaction(true)
			a, writes := assign, 0
			for _, k := range keys {
				switch a % 3 {
				case 1:
					if err := txn.Set([]byte(k), []byte("p")); err != nil {
						t.Fatal(err)
					}
					want[k] = "p"
					writes++
				case 2:
					if err := txn.Delete([]byte(k)); err != nil {
						t.Fatal(err)
					}
					delete(want, k)
					writes++
				}
				a /= 3
			}
			var order []string
			for k := range want {
				order = append(order, k)
			}
			sort.Strings(order)
			scan := func(seek *string) []string {
				it := txn.NewIterator(IteratorOptions{})
				defer it.Close()
				var got []string
				if seek == nil {
					it.Rewind()
				} else {
					it.Seek([]byte(*seek))
				}
				for n := 0; it.Valid(); it.Next() {
					if n++; n > 20 {
						t.Fatalf("iterator does not terminate")
					}
					v, err := it.Item().ValueCopy(nil)
					if err != nil {
						t.Fatal(err)
					}
					got = append(got, fmt.Sprintf("%q=%s", it.Item().Entry().Key, v))
				}
				return got
			}
			expect := func(from string) []string {
				var out []string
				for _, k := range order {
					if k >= from {
						out = append(out, fmt.Sprintf("%q=%s", k, want[k]))
					}
				}
				return out
			}
			if got, exp := scan(nil), expect(""); fmt.Sprint(got) != fmt.Sprint(exp) {
				t.Fatalf("committed subset %04b of %q, own writes %d (base 3, 1=put 2=delete per key): forward scan yields %v, want %v", committed, keys, assign, got, exp)
			}
			cases++
			for i := range keys {
				k := keys[i]
				if got, exp := scan(&k), expect(k); fmt.Sprint(got) != fmt.Sprint(exp) {
					t.Fatalf("committed subset %04b of %q, own writes %d: Seek(%q) then scan yields %v, want %v", committed, keys, assign, k, got, exp)
				}
				cases++
			}
			txn.Discard()
			if writes >= 2 && committed != 0 {
				nontrivial++
				if sample == "" && writes == 2 {
					sample = fmt.Sprintf("committed %04b, own writes code %d -> %v", committed, assign, expect(""))
				}
			}
		}
	}
	fmt.Printf("BOUNDED-CASES %d\n", cases)
	fmt.Printf("BOUNDED-NONTRIVIAL %d\n", nontrivial)
	fmt.Printf("BOUNDED-SAMPLE %s\n", sample)
}
