// bounded: pkg=lsm run=TestVerifBoundedIteratorSources bound=0..3 unflushed immutable memtables plus the active one; the same internal key k@5 written to any non-empty subset of them (plus a second key in every memtable); skiplist memtable
package lsm

// Bounded stand-in for the order in which LSM.NewIterators lists the memtables (C06: "each
// value equals a point read of the same key"). The merge iterator keeps the copy of the
// EARLIER source on equal internal keys, so the sources must be listed newest first. The
// contract for this (ghost order of memTable.NewIterator calls over the copied immutables
// slice) does not discharge - the verifier does not carry the element-wise facts across the
// `append([]*memTable(nil), lsm.immutables...)` copy - so the REAL NewIterators, the REAL
// merge iterator and the REAL Get are run on every layout within the bound and compared
// with the last write.

import (
	"fmt"
	"os"
	"path/filepath"
	"testing"

	"github.com/feichai0017/NoKV/kv"
	"github.com/feichai0017/NoKV/manifest"
	"github.com/feichai0017/NoKV/utils"
	"github.com/feichai0017/NoKV/wal"
)

func verifBoundedOpenLSMSources(dir string) *LSM {
	o := &Options{
		WorkDir:             dir,
		SSTableMaxSz:        1 << 20,
		MemTableSize:        1 << 20,
		BlockSize:           1024,
		BloomFalsePositive:  0,
		BaseLevelSize:       10 << 20,
		LevelSizeMultiplier: 10,
		BaseTableSize:       2 << 20,
		TableSizeMultiplier: 2,
		NumLevelZeroTables:  15,
		MaxLevelNum:         7,
		NumCompactors:       1,
	}
	c := make(chan map[manifest.ValueLogID]int64, 16)
	o.DiscardStatsCh = &c
	wlog, err := wal.Open(wal.Config{Dir: dir})
	if err != nil {
		panic(err)
	}
	l := NewLSM(o, wlog)
	l.SetDiscardStatsCh(&c)
	return l
}

func TestVerifBoundedIteratorSources(t *testing.T) {
	base := t.TempDir()
	key := kv.KeyWithTs([]byte("k"), 5)
	other := kv.KeyWithTs([]byte("z"), 5)
	cases, nontrivial := 0, 0
	sample := ""
	for nImm := 0; nImm <= 3; nImm++ {
		for mask := 1; mask < 1<<(nImm+1); mask++ { // bit j: memtable j (creation order, last = active) holds k
			dir := filepath.Join(base, fmt.Sprintf("c%d_%d", nImm, mask))
			if err := os.MkdirAll(dir, 0o755); err != nil {
				t.Fatal(err)
			}
			l := verifBoundedOpenLSMSources(dir)
			want := ""
			holders := 0
			for j := 0; j <= nImm; j++ {
				if mask&(1<<j) != 0 {
					want = fmt.Sprintf("v%d", j)
					holders++
					if err := l.Set(kv.NewEntry(append([]byte(nil), key...), []byte(want))); err != nil {
						t.Fatal(err)
					}
				}
				if err := l.Set(kv.NewEntry(append([]byte(nil), other...), []byte(fmt.Sprintf("z%d", j)))); err != nil {
					t.Fatal(err)
				}
				if j < nImm {
					// rotate without handing the old memtable to the flusher (a flush that has not run yet)
					l.lock.Lock()
					l.rotateLocked()
					l.lock.Unlock()
				}
			}
			got, err := l.Get(key)
			if err != nil || got == nil {
				t.Fatalf("%d immutables, holders mask %b: Get: %v", nImm, mask, err)
			}
			if string(got.Value) != want {
				t.Fatalf("%d immutables, holders mask %b: Get returns %q, the last write is %q", nImm, mask, got.Value, want)
			}
			got.DecrRef()
			it := NewMergeIterator(l.NewIterators(&utils.Options{IsAsc: true}), false)
			seen := map[string]string{}
			for it.Rewind(); it.Valid(); it.Next() {
				e := it.Item().Entry()
				uk := string(kv.ParseKey(e.Key))
				if _, dup := seen[uk]; dup {
					t.Fatalf("%d immutables, holders mask %b: key %q appears twice at one version", nImm, mask, uk)
				}
				seen[uk] = string(e.Value)
			}
			_ = it.Close()
			if seen["k"] != want || seen["z"] != fmt.Sprintf("z%d", nImm) {
				t.Fatalf("%d unflushed immutable memtables, k@5 written to memtables %b (bit j = j-th oldest, last = active): the iterator yields k=%q z=%q, a point read yields k=%q (last writes: k=%q z=%q)", nImm, mask, seen["k"], seen["z"], want, want, fmt.Sprintf("z%d", nImm))
			}
			w := l.wal
			_ = l.Close()
			_ = w.Close()
			_ = os.RemoveAll(dir)
			cases++
			if holders > 1 {
				nontrivial++
				if sample == "" && nImm == 2 {
					sample = fmt.Sprintf("2 immutables, holders mask %b: iterator and Get both yield %q", mask, want)
				}
			}
		}
	}
	fmt.Printf("BOUNDED-CASES %d\n", cases)
	fmt.Printf("BOUNDED-NONTRIVIAL %d\n", nontrivial)
	fmt.Printf("BOUNDED-SAMPLE %s\n", sample)
}
