// bounded: pkg=kv run=TestVerifBoundedDecodeEntryAlloc bound=entry headers declaring key and value lengths from {0, 1, 65535, 65536, 1<<20, 1<<28, 1<<31, 4294967295} followed by 0, 1 or 16 payload bytes (truncated records), and the same lengths with a complete payload for lengths <= 65536
package kv

// Bounded stand-in for the allocation clause of C16 ("decoders are total and
// allocation-bounded") on the STREAM decoder kv.DecodeEntryFrom, which reads through an
// io.Reader and a pooled entry - outside the byte-slice decoders the C16 proof covers. The
// lengths in the header are not verified when the buffers are sized, so the REAL decoder is
// run on every header within the bound: a truncated record is refused, and the bytes it
// allocated stay below 128 KiB plus twice the input (defect repaired: the declared lengths
// were allocated up front - 8 bytes of input allocated 256 MiB); a complete record still
// decodes to its key and value.

import (
	"bytes"
	"encoding/binary"
	"fmt"
	"hash/crc32"
	"runtime"
	"testing"
)

func TestVerifBoundedDecodeEntryAlloc(t *testing.T) {
	lens := []uint64{0, 1, 65535, 65536, 1 << 20, 1 << 28, 1 << 31, 4294967295}
	cases, nontrivial := 0, 0
	sample := ""
	for _, kl := range lens {
		for _, vl := range lens {
			for _, payload := range []int{0, 1, 16} {
				if uint64(payload) >= kl+vl+4 {
					continue // not truncated
				}
				var hdr [4 * binary.MaxVarintLen64]byte
				n := binary.PutUvarint(hdr[:], kl)
				n += binary.PutUvarint(hdr[n:], vl)
				n += binary.PutUvarint(hdr[n:], 0)
				n += binary.PutUvarint(hdr[n:], 0)
				in := append(append([]byte(nil), hdr[:n]...), bytes.Repeat([]byte{'x'}, payload)...)
				var before, after runtime.MemStats
				runtime.GC()
				runtime.ReadMemStats(&before)
				e, _, err := DecodeEntryFrom(bytes.NewReader(in))
				runtime.ReadMemStats(&after)
				if err == nil {
					e.DecrRef()
					t.Fatalf("header key=%d value=%d with %d payload bytes: a truncated record decoded", kl, vl, payload)
				}
				grown := after.TotalAlloc - before.TotalAlloc
				if limit := uint64(128<<10 + 2*len(in)); grown > limit {
					t.Fatalf("header declaring key=%d value=%d bytes followed by %d payload bytes (%d bytes of input): the decoder allocated %d bytes, more than %d", kl, vl, payload, len(in), grown, limit)
				}
				cases++
				if kl >= 1<<20 || vl >= 1<<20 {
					nontrivial++
					if sample == "" {
						sample = fmt.Sprintf("key=%d value=%d declared, %d bytes of input: refused after allocating %d bytes", kl, vl, len(in), grown)
					}
				}
			}
		}
	}
	// complete records still decode
	for _, kl := range []int{1, 65535, 65536, 200000} {
		for _, vl := range []int{0, 1, 65536, 300000} {
			key := bytes.Repeat([]byte{'k'}, kl)
			val := bytes.Repeat([]byte{'v'}, vl)
			var hdr [4 * binary.MaxVarintLen64]byte
			n := binary.PutUvarint(hdr[:], uint64(kl))
			n += binary.PutUvarint(hdr[n:], uint64(vl))
			n += binary.PutUvarint(hdr[n:], 0)
			n += binary.PutUvarint(hdr[n:], 0)
			rec := append(append(append([]byte(nil), hdr[:n]...), key...), val...)
			var crc [4]byte
			binary.BigEndian.PutUint32(crc[:], crc32.Checksum(rec, CastagnoliCrcTable))
			rec = append(rec, crc[:]...)
			e, _, err := DecodeEntryFrom(bytes.NewReader(rec))
			if err != nil {
				t.Fatalf("complete record key=%d value=%d: %v", kl, vl, err)
			}
			if !bytes.Equal(e.Key, key) || !bytes.Equal(e.Value, val) {
				t.Fatalf("complete record key=%d value=%d decodes to key %d bytes, value %d bytes", kl, vl, len(e.Key), len(e.Value))
			}
			e.DecrRef()
			cases++
		}
	}
	fmt.Printf("BOUNDED-CASES %d\n", cases)
	fmt.Printf("BOUNDED-NONTRIVIAL %d\n", nontrivial)
	fmt.Printf("BOUNDED-SAMPLE %s\n", sample)
}
