// bounded: pkg=utils run=TestVerifBoundedBloomNoFalseNegative bound=key-hash sets of size 0..3 drawn from 12 fixed 32-bit values (0, 1, 2^31, 2^32-1, values with equal low bits, ...), bitsPerKey 0..40; plus BloomInsert on filters of 2..40 bytes with probe count byte 0..31
package utils

// Bounded stand-in for the bloom-filter clause of C35 (no false negatives). The deductive
// contract (probe sequence h + j*delta mod nBits in quantified loop invariants) gets no
// solver answer. The REAL buildBloomFilter / BloomMayContain / BloomInsert are run on every
// case within the bound.

import (
	"fmt"
	"testing"
)

func TestVerifBoundedBloomNoFalseNegative(t *testing.T) {
	vals := []uint32{0, 1, 2, 0x80000000, 0xffffffff, 0x7fffffff, 64, 128, 0x00010001, 0xdeadbeef, 0x12345678, 1 << 17}
	var sets [][]uint32
	sets = append(sets, nil)
	for i, a := range vals {
		sets = append(sets, []uint32{a})
		for j, b := range vals {
			if j < i {
				continue
			}
			sets = append(sets, []uint32{a, b})
			for k, c := range vals {
				if k < j {
					continue
				}
				sets = append(sets, []uint32{a, b, c})
			}
		}
	}
	cases, nontrivial, samples := 0, 0, 0
	for bpk := 0; bpk <= 40; bpk++ {
		for _, keys := range sets {
			f := NewFilter(keys, bpk)
			cases++
			if len(keys) > 0 {
				nontrivial++
			}
			for _, h := range keys {
				if !f.MayContain(h) {
					t.Fatalf("false negative: keys=%v bitsPerKey=%d: MayContain(%#x) = false", keys, bpk, h)
				}
			}
			if samples < 3 && cases%7919 == 1 {
				samples++
				fmt.Printf("BOUNDED-SAMPLE build keys=%v bitsPerKey=%d filterBytes=%d\n", keys, bpk, len(f))
			}
		}
	}
	// BloomInsert followed by BloomMayContain, and bits only ever get set
	for n := 2; n <= 40; n++ {
		for k := 0; k <= 31; k++ {
			for _, h := range vals {
				filter := make([]byte, n)
				filter[n-1] = byte(k)
				filter[0] = 0x5a
				before := append([]byte(nil), filter...)
				BloomInsert(filter, h)
				cases++
				nontrivial++
				if !BloomMayContain(filter, h) {
					t.Fatalf("false negative after BloomInsert: len=%d k=%d h=%#x", n, k, h)
				}
				for i := range filter {
					if before[i]&^filter[i] != 0 {
						t.Fatalf("BloomInsert cleared a bit: len=%d k=%d h=%#x byte %d", n, k, h, i)
					}
				}
				if filter[n-1] != byte(k) && k <= 30 {
					// the probe count byte may only gain bits through aliasing of probe positions? it is outside the bit range
					t.Fatalf("BloomInsert changed the probe count byte: len=%d k=%d h=%#x", n, k, h)
				}
			}
		}
	}
	fmt.Printf("BOUNDED-SAMPLE insert len=2..40 k=0..31 over %d hashes\n", len(vals))
	fmt.Printf("BOUNDED-CASES %d\n", cases)
	fmt.Printf("BOUNDED-NONTRIVIAL %d\n", nontrivial)
}
