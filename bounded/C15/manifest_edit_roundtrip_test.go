// bounded: pkg=manifest run=TestVerifBoundedEditRoundTrip bound=every edit kind; each varint field from {0,1,128,max of its type}; keys from {nil, 1 byte, 130 bytes}; 0..2 peers; every zero/non-zero pattern of a raft pointer's four trailing fields; plus every stream of 1..3 edits drawn from a 12-element sample, written with writeEdit and read back with readEdit
package manifest

// Bounded stand-in for the encode/decode round trip of manifest edits (C15: "the state
// reloaded from disk equals the in-memory state ... with arbitrary field values"). The
// encoder appends to a growing buffer behind an io.Writer and the decoder is a closure
// over a cursor - both outside what the verifier discharges - so the REAL writeEdit and
// readEdit are run on every edit within the bound and the decoded edit is compared field
// by field with the edit that was written.

import (
	"bufio"
	"bytes"
	"fmt"
	"io"
	"math"
	"testing"
)

func verifBoundedSameEdit(a, b Edit) string {
	if a.Type != b.Type {
		return "type"
	}
	switch a.Type {
	case EditAddFile, EditDeleteFile:
		x, y := a.File, b.File
		if x == nil || y == nil {
			return "file nil"
		}
		if x.Level != y.Level || x.FileID != y.FileID || x.Size != y.Size || x.CreatedAt != y.CreatedAt {
			return "file scalar"
		}
		if x.ValueSize != y.ValueSize {
			return fmt.Sprintf("ValueSize %d != %d", x.ValueSize, y.ValueSize)
		}
		if x.Ingest != y.Ingest {
			return "Ingest"
		}
		if !bytes.Equal(x.Smallest, y.Smallest) || !bytes.Equal(x.Largest, y.Largest) {
			return "file keys"
		}
	case EditLogPointer:
		if a.LogSeg != b.LogSeg || a.LogOffset != b.LogOffset {
			return "log pointer"
		}
	case EditValueLogHead:
		x, y := a.ValueLog, b.ValueLog
		if x == nil || y == nil {
			return "vlog nil"
		}
		if x.Bucket != y.Bucket || x.FileID != y.FileID || x.Offset != y.Offset {
			return "vlog head"
		}
	case EditDeleteValueLog:
		x, y := a.ValueLog, b.ValueLog
		if x == nil || y == nil {
			return "vlog nil"
		}
		if x.Bucket != y.Bucket || x.FileID != y.FileID {
			return "vlog delete"
		}
	case EditUpdateValueLog:
		x, y := a.ValueLog, b.ValueLog
		if x == nil || y == nil {
			return "vlog nil"
		}
		if *x != *y {
			return "vlog update"
		}
	case EditRaftPointer:
		if a.Raft == nil || b.Raft == nil {
			return "raft nil"
		}
		if *a.Raft != *b.Raft {
			return "raft pointer"
		}
	case EditRegion:
		x, y := a.Region, b.Region
		if x == nil || y == nil {
			return "region nil"
		}
		if x.Delete != y.Delete || x.Meta.ID != y.Meta.ID {
			return "region id/delete"
		}
		if x.Delete {
			return ""
		}
		if !bytes.Equal(x.Meta.StartKey, y.Meta.StartKey) || !bytes.Equal(x.Meta.EndKey, y.Meta.EndKey) {
			return "region keys"
		}
		if x.Meta.Epoch != y.Meta.Epoch || x.Meta.State != y.Meta.State {
			return "region epoch/state"
		}
		if len(x.Meta.Peers) != len(y.Meta.Peers) {
			return "region peer count"
		}
		for i := range x.Meta.Peers {
			if x.Meta.Peers[i] != y.Meta.Peers[i] {
				return "region peer"
			}
		}
	}
	return ""
}

func verifBoundedEdits() []Edit {
	u64 := []uint64{0, 1, 128, math.MaxUint64}
	u32 := []uint32{0, 1, 128, math.MaxUint32}
	long := bytes.Repeat([]byte{0xab}, 130)
	keys := [][]byte{nil, {0}, long}
	var out []Edit
	// table add / delete: each field takes every value while the others sit at a base,
	// plus the full product of the three trailing fields (CreatedAt, ValueSize, Ingest)
	for _, ty := range []EditType{EditAddFile, EditDeleteFile} {
		for _, lvl := range []int{0, 1, 6} {
			for _, v := range u64 {
				for _, k := range keys {
					out = append(out, Edit{Type: ty, File: &FileMeta{Level: lvl, FileID: v, Size: v, Smallest: k, Largest: long, CreatedAt: 7, ValueSize: 9}})
					out = append(out, Edit{Type: ty, File: &FileMeta{Level: lvl, FileID: 3, Size: 5, Smallest: long, Largest: k, CreatedAt: v, ValueSize: 1, Ingest: true}})
				}
			}
		}
		for _, c := range u64 {
			for _, vs := range u64 {
				for _, ing := range []bool{false, true} {
					for _, k := range keys {
						out = append(out, Edit{Type: ty, File: &FileMeta{Level: 2, FileID: 11, Size: 4096, Smallest: k, Largest: k, CreatedAt: c, ValueSize: vs, Ingest: ing}})
					}
				}
			}
		}
	}
	for _, s := range u32 {
		for _, o := range u64 {
			out = append(out, Edit{Type: EditLogPointer, LogSeg: s, LogOffset: o})
			for _, f := range u32 {
				out = append(out, Edit{Type: EditValueLogHead, ValueLog: &ValueLogMeta{Bucket: s, FileID: f, Offset: o, Valid: true}})
				out = append(out, Edit{Type: EditDeleteValueLog, ValueLog: &ValueLogMeta{Bucket: s, FileID: f}})
				out = append(out, Edit{Type: EditUpdateValueLog, ValueLog: &ValueLogMeta{Bucket: s, FileID: f, Offset: o, Valid: true}})
				out = append(out, Edit{Type: EditUpdateValueLog, ValueLog: &ValueLogMeta{Bucket: s, FileID: f, Offset: o, Valid: false}})
			}
		}
	}
	// raft pointer: one field at a time over u64 (others distinct small constants), and all-equal
	for field := 0; field < 12; field++ {
		for _, v := range u64 {
			vals := [12]uint64{1, 2, 3, 4, 5, 6, 7, 8, 9, 10, 11, 12}
			vals[field] = v
			seg := uint32(vals[1])
			if field == 1 && v == math.MaxUint64 {
				seg = math.MaxUint32
			}
			out = append(out, Edit{Type: EditRaftPointer, Raft: &RaftLogPointer{GroupID: vals[0], Segment: seg, Offset: vals[2], AppliedIndex: vals[3], AppliedTerm: vals[4], Committed: vals[5], SnapshotIndex: vals[6], SnapshotTerm: vals[7], TruncatedIndex: vals[8], TruncatedTerm: vals[9], SegmentIndex: vals[10], TruncatedOffset: vals[11]}})
		}
	}
	// the optional tail of a raft pointer: every zero / non-zero pattern of the last four fields
	for m := 0; m < 16; m++ {
		pick := func(bit int, v uint64) uint64 {
			if m&(1<<bit) != 0 {
				return v
			}
			return 0
		}
		out = append(out, Edit{Type: EditRaftPointer, Raft: &RaftLogPointer{GroupID: 1, Segment: 2, Offset: 3, AppliedIndex: 4, AppliedTerm: 5, Committed: 6, SnapshotIndex: 7, SnapshotTerm: 8, TruncatedIndex: pick(0, 9), TruncatedTerm: pick(1, 10), SegmentIndex: pick(2, 11), TruncatedOffset: pick(3, 12)}})
	}
	for _, v := range u64 {
		out = append(out, Edit{Type: EditRaftPointer, Raft: &RaftLogPointer{GroupID: v, Segment: uint32(v), Offset: v, AppliedIndex: v, AppliedTerm: v, Committed: v, SnapshotIndex: v, SnapshotTerm: v, TruncatedIndex: v, TruncatedTerm: v, SegmentIndex: v, TruncatedOffset: v}})
	}
	peerSets := [][]PeerMeta{nil, {{StoreID: 1, PeerID: 128}}, {{StoreID: math.MaxUint64, PeerID: 0}, {StoreID: 0, PeerID: math.MaxUint64}}}
	for _, id := range u64 {
		out = append(out, Edit{Type: EditRegion, Region: &RegionEdit{Meta: RegionMeta{ID: id}, Delete: true}})
		for _, sk := range keys {
			for _, ek := range keys {
				for _, ps := range peerSets {
					for _, st := range []RegionState{RegionStateNew, RegionStateRunning, RegionStateRemoving, RegionStateTombstone} {
						for _, ver := range []uint64{0, 128, math.MaxUint64} {
							out = append(out, Edit{Type: EditRegion, Region: &RegionEdit{Meta: RegionMeta{ID: id, StartKey: sk, EndKey: ek, Epoch: RegionEpoch{Version: ver, ConfVersion: ver ^ 1}, Peers: ps, State: st}}})
						}
					}
				}
			}
		}
	}
	return out
}

func TestVerifBoundedEditRoundTrip(t *testing.T) {
	edits := verifBoundedEdits()
	cases, nontrivial := 0, 0
	sample := ""
	for i, e := range edits {
		var buf bytes.Buffer
		if err := writeEdit(&buf, e); err != nil {
			t.Fatalf("edit %d (%+v): writeEdit: %v", i, e, err)
		}
		rd := bufio.NewReader(bytes.NewReader(buf.Bytes()))
		got, err := readEdit(rd)
		if err != nil {
			t.Fatalf("edit %d type=%d: a written edit does not read back: %v (file=%+v)", i, e.Type, err, e.File)
		}
		if why := verifBoundedSameEdit(e, got); why != "" {
			t.Fatalf("edit %d type=%d: the edit read back differs from the edit written: %s (wrote file=%+v, read file=%+v)", i, e.Type, why, e.File, got.File)
		}
		if _, err := readEdit(rd); err != io.EOF {
			t.Fatalf("edit %d type=%d: bytes left after the record (err=%v)", i, e.Type, err)
		}
		cases++
		if e.Type == EditAddFile && e.File.ValueSize == 0 && e.File.Ingest {
			nontrivial++
			if sample == "" {
				sample = fmt.Sprintf("add-file ValueSize=0 Ingest=true CreatedAt=%d encodes to %d bytes and reads back equal", e.File.CreatedAt, buf.Len())
			}
		}
	}
	// streams: 1..3 records back to back (framing)
	var pick []Edit
	step := len(edits) / 12
	for i := 0; i < 12; i++ {
		pick = append(pick, edits[i*step])
	}
	var run func(seq []Edit)
	run = func(seq []Edit) {
		if len(seq) > 0 {
			var buf bytes.Buffer
			for _, e := range seq {
				if err := writeEdit(&buf, e); err != nil {
					t.Fatalf("stream: writeEdit: %v", err)
				}
			}
			rd := bufio.NewReader(bytes.NewReader(buf.Bytes()))
			for k, e := range seq {
				got, err := readEdit(rd)
				if err != nil {
					t.Fatalf("stream of %d: record %d does not read back: %v", len(seq), k, err)
				}
				if why := verifBoundedSameEdit(e, got); why != "" {
					t.Fatalf("stream of %d: record %d differs: %s", len(seq), k, why)
				}
			}
			if _, err := readEdit(rd); err != io.EOF {
				t.Fatalf("stream of %d: bytes left (err=%v)", len(seq), err)
			}
			cases++
		}
		if len(seq) == 3 {
			return
		}
		for _, e := range pick {
			run(append(append([]Edit(nil), seq...), e))
		}
	}
	run(nil)
	fmt.Printf("BOUNDED-CASES %d\n", cases)
	fmt.Printf("BOUNDED-NONTRIVIAL %d\n", nontrivial)
	fmt.Printf("BOUNDED-SAMPLE %s\n", sample)
}
