// bounded: pkg=manifest run=TestVerifBoundedReloadEqualsMemory bound=every sequence of 1..3 edits from a 14-element alphabet (table add/delete, WAL checkpoint, value-log head / update valid / update invalid / delete, raft pointer x2, region update x2 / delete, on two value-log files and two regions); rewrite after every edit, after the last edit only, after the first edit only (later edits are appended to the rewritten file), or never
package manifest

// Bounded stand-in for the first sentence of C15: "For any sequence of metadata edits ...
// the state reloaded from disk equals the in-memory state, including after any number of
// automatic rewrites." The obligations of this pack prove the ORDER of the file events; that
// the bytes written (edit log and snapshot) decode to the same version is outside the
// verifier (maps of structs behind an io.Writer), so the REAL Manager is run on every
// sequence within the bound: after the edits (and rewrites) Current() is recorded, the
// manager is closed and reopened, and the reloaded Current() must be deeply equal.

import (
	"fmt"
	"os"
	"path/filepath"
	"reflect"
	"testing"
)

func verifBoundedNormVersion(v Version) Version {
	// empty and nil maps / slices are the same state
	if len(v.Levels) == 0 {
		v.Levels = nil
	} else {
		lv := map[int][]FileMeta{}
		for k, fs := range v.Levels {
			if len(fs) == 0 {
				continue
			}
			cp := make([]FileMeta, len(fs))
			for i, f := range fs {
				if len(f.Smallest) == 0 {
					f.Smallest = nil
				}
				if len(f.Largest) == 0 {
					f.Largest = nil
				}
				cp[i] = f
			}
			lv[k] = cp
		}
		if len(lv) == 0 {
			lv = nil
		}
		v.Levels = lv
	}
	if len(v.ValueLogs) == 0 {
		v.ValueLogs = nil
	}
	if len(v.ValueLogHead) == 0 {
		v.ValueLogHead = nil
	}
	if len(v.RaftPointers) == 0 {
		v.RaftPointers = nil
	}
	if len(v.Regions) == 0 {
		v.Regions = nil
	} else {
		rg := map[uint64]RegionMeta{}
		for k, r := range v.Regions {
			if len(r.StartKey) == 0 {
				r.StartKey = nil
			}
			if len(r.EndKey) == 0 {
				r.EndKey = nil
			}
			if len(r.Peers) == 0 {
				r.Peers = nil
			}
			rg[k] = r
		}
		v.Regions = rg
	}
	return v
}

func TestVerifBoundedReloadEqualsMemory(t *testing.T) {
	alphabet := []Edit{
		{Type: EditAddFile, File: &FileMeta{Level: 0, FileID: 7, Size: 100, Smallest: []byte("a"), Largest: []byte("m"), CreatedAt: 3, ValueSize: 0, Ingest: true}},
		{Type: EditAddFile, File: &FileMeta{Level: 2, FileID: 8, Size: 5, Smallest: []byte("n"), Largest: []byte("z"), CreatedAt: 4, ValueSize: 9}},
		{Type: EditDeleteFile, File: &FileMeta{Level: 0, FileID: 7}},
		{Type: EditLogPointer, LogSeg: 3, LogOffset: 4096},
		{Type: EditValueLogHead, ValueLog: &ValueLogMeta{Bucket: 1, FileID: 7, Offset: 55, Valid: true}},
		{Type: EditUpdateValueLog, ValueLog: &ValueLogMeta{Bucket: 1, FileID: 7, Offset: 77, Valid: true}},
		{Type: EditUpdateValueLog, ValueLog: &ValueLogMeta{Bucket: 1, FileID: 7, Offset: 55, Valid: false}},
		{Type: EditDeleteValueLog, ValueLog: &ValueLogMeta{Bucket: 1, FileID: 7}},
		{Type: EditValueLogHead, ValueLog: &ValueLogMeta{Bucket: 1, FileID: 8, Offset: 10, Valid: true}},
		{Type: EditRaftPointer, Raft: &RaftLogPointer{GroupID: 1, Segment: 2, Offset: 3, AppliedIndex: 4, AppliedTerm: 1, Committed: 4}},
		{Type: EditRaftPointer, Raft: &RaftLogPointer{GroupID: 1, Segment: 5, Offset: 0, AppliedIndex: 9, AppliedTerm: 2, Committed: 9, SegmentIndex: 4, TruncatedOffset: 64}},
		{Type: EditRegion, Region: &RegionEdit{Meta: RegionMeta{ID: 10, StartKey: []byte("a"), EndKey: []byte("m"), Epoch: RegionEpoch{Version: 1, ConfVersion: 1}, Peers: []PeerMeta{{StoreID: 1, PeerID: 11}}, State: RegionStateRunning}}},
		{Type: EditRegion, Region: &RegionEdit{Meta: RegionMeta{ID: 10, StartKey: []byte("a"), EndKey: nil, Epoch: RegionEpoch{Version: 2, ConfVersion: 1}, State: RegionStateRemoving}}},
		{Type: EditRegion, Region: &RegionEdit{Meta: RegionMeta{ID: 10}, Delete: true}},
	}
	clone := func(e Edit) Edit {
		c := e
		if e.File != nil {
			f := *e.File
			c.File = &f
		}
		if e.ValueLog != nil {
			v := *e.ValueLog
			c.ValueLog = &v
		}
		if e.Raft != nil {
			r := *e.Raft
			c.Raft = &r
		}
		if e.Region != nil {
			r := *e.Region
			r.Meta = CloneRegionMeta(e.Region.Meta)
			c.Region = &r
		}
		return c
	}
	base := t.TempDir()
	cases, nontrivial := 0, 0
	sample := ""
	n := 0
	var run func(seq []int)
	run = func(seq []int) {
		if len(seq) > 0 {
			for mode := 0; mode < 4; mode++ { // 0 never rewrite, 1 rewrite after the last edit, 2 rewrite after every edit, 3 rewrite after the first edit only
				if mode == 3 && len(seq) < 2 {
					continue
				}
				n++
				dir := filepath.Join(base, fmt.Sprintf("m%d", n))
				if err := os.MkdirAll(dir, 0o755); err != nil {
					t.Fatal(err)
				}
				m, err := Open(dir, nil)
				if err != nil {
					t.Fatalf("open: %v", err)
				}
				for k, ai := range seq {
					if err := m.LogEdit(clone(alphabet[ai])); err != nil {
						t.Fatalf("sequence %v: LogEdit %d: %v", seq, ai, err)
					}
					if mode == 2 || (mode == 1 && k == len(seq)-1) || (mode == 3 && k == 0) {
						if err := m.Rewrite(); err != nil {
							t.Fatalf("sequence %v: Rewrite: %v", seq, err)
						}
					}
				}
				mem := verifBoundedNormVersion(m.Current())
				if err := m.Close(); err != nil {
					t.Fatalf("close: %v", err)
				}
				r, err := Open(dir, nil)
				if err != nil {
					t.Fatalf("sequence %v mode %d: reopen: %v", seq, mode, err)
				}
				disk := verifBoundedNormVersion(r.Current())
				_ = r.Close()
				if !reflect.DeepEqual(mem, disk) {
					t.Fatalf("edit sequence %v (indices into the alphabet), rewrite mode %d (0 never, 1 after the last edit, 2 after every edit, 3 after the first edit only): the state reloaded from disk differs from the in-memory state\n memory: %+v\n reload: %+v", seq, mode, mem, disk)
				}
				_ = os.RemoveAll(dir)
				cases++
				if mode > 0 {
					nontrivial++
					if sample == "" && len(seq) == 3 && len(mem.ValueLogs) > 0 && !mem.ValueLogs[ValueLogID{Bucket: 1, FileID: 7}].Valid {
						sample = fmt.Sprintf("sequence %v with a rewrite after every edit reloads equal to memory (%d value logs, %d regions)", seq, len(mem.ValueLogs), len(mem.Regions))
					}
				}
			}
		}
		if len(seq) == 3 {
			return
		}
		for i := range alphabet {
			run(append(append([]int(nil), seq...), i))
		}
	}
	run(nil)
	fmt.Printf("BOUNDED-CASES %d\n", cases)
	fmt.Printf("BOUNDED-NONTRIVIAL %d\n", nontrivial)
	fmt.Printf("BOUNDED-SAMPLE %s\n", sample)
}
