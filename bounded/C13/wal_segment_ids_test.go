// bounded: pkg=wal run=TestVerifBoundedSegmentIDs bound=first segment id in {1, 9, 99, 9998, 99998, 99999, 100000, 999999, 1000000, 4294967290}; 1..3 segments reached by ordinary rotations, one record each; replay, close, VerifyDir, reopen, one more record, replay
package wal

// Bounded stand-in for the segment-naming half of C13 ("replay yields exactly the records
// that were appended, in order ... after reopen appends continue after the last record"):
// segment ids come from the LSM's file-id allocator and grow without bound, and the names
// must be read back for every id (defect repaired: names were scanned with "%05d.wal", so
// ids of six digits and more were skipped by replay and by open, and files were ordered as
// strings). Globbing and name parsing go through the file system layer, outside the
// record-level contracts of this pack, so the REAL manager is run on every id within the bound.

import (
	"fmt"
	"reflect"
	"testing"
)

func TestVerifBoundedSegmentIDs(t *testing.T) {
	firsts := []uint32{1, 9, 99, 9998, 99998, 99999, 100000, 999999, 1000000, 4294967290}
	cases, nontrivial := 0, 0
	sample := ""
	for _, first := range firsts {
		for nseg := 1; nseg <= 3; nseg++ {
			dir := t.TempDir()
			m, err := Open(Config{Dir: dir, SyncOnWrite: true})
			if err != nil {
				t.Fatal(err)
			}
			if err := m.SwitchSegment(first, true); err != nil {
				t.Fatal(err)
			}
			var want []string
			for s := 0; s < nseg; s++ {
				if s > 0 {
					if err := m.Rotate(); err != nil {
						t.Fatal(err)
					}
				}
				rec := fmt.Sprintf("r%d", s)
				if _, err := m.Append([]byte(rec)); err != nil {
					t.Fatal(err)
				}
				want = append(want, rec)
			}
			last := first + uint32(nseg-1)
			if got := m.ActiveSegment(); got != last {
				t.Fatalf("first segment %d, %d segments: active segment %d, want %d", first, nseg, got, last)
			}
			replay := func(m *Manager) []string {
				var got []string
				if err := m.Replay(func(info EntryInfo, payload []byte) error {
					got = append(got, string(payload))
					return nil
				}); err != nil {
					t.Fatalf("replay: %v", err)
				}
				return got
			}
			if got := replay(m); !reflect.DeepEqual(got, want) {
				t.Fatalf("segments %d..%d: replay yields %q, appended %q", first, last, got, want)
			}
			if err := m.Close(); err != nil {
				t.Fatal(err)
			}
			if err := VerifyDir(dir, nil); err != nil {
				t.Fatal(err)
			}
			m, err = Open(Config{Dir: dir, SyncOnWrite: true})
			if err != nil {
				t.Fatal(err)
			}
			if got := m.ActiveSegment(); got != last {
				t.Fatalf("segments %d..%d: the reopened log resumes segment %d, want the highest segment %d", first, last, got, last)
			}
			if _, err := m.Append([]byte("tail")); err != nil {
				t.Fatal(err)
			}
			want = append(want, "tail")
			if got := replay(m); !reflect.DeepEqual(got, want) {
				t.Fatalf("segments %d..%d: replay after reopen yields %q, appended %q", first, last, got, want)
			}
			_ = m.Close()
			cases++
			if last >= 100000 {
				nontrivial++
				if sample == "" {
					sample = fmt.Sprintf("segments %d..%d replay %q after a reopen", first, last, want)
				}
			}
		}
	}
	fmt.Printf("BOUNDED-CASES %d\n", cases)
	fmt.Printf("BOUNDED-NONTRIVIAL %d\n", nontrivial)
	fmt.Printf("BOUNDED-SAMPLE %s\n", sample)
}
