// bounded: pkg=utils run=TestVerifBoundedMemtableOrder bound=every set of 1..3 internal keys, inserted in every order: the skiplist over user keys {"a", "a\x00", "ab", "b"} x versions {1,2}; skiplist and ART side by side over the prefix-free user keys {"a", "b", "c", "d"} x versions {1,2}
package utils

// Bounded stand-in for C07 (sequential part): both memtable indexes iterate forward in the
// engine-independent internal-key order (CompareKeys: user key ascending, version
// descending) and answer every lookup identically. The real Skiplist and ART run on every
// key set within the bound.

import (
	"bytes"
	"fmt"
	"sort"
	"testing"

	"github.com/feichai0017/NoKV/kv"
)

func verifCollect(it Iterator) [][]byte {
	var out [][]byte
	for it.Rewind(); it.Valid(); it.Next() {
		out = append(out, append([]byte(nil), it.Item().Entry().Key...))
	}
	_ = it.Close()
	return out
}

func TestVerifBoundedMemtableOrder(t *testing.T) {
	cases, nontrivial, samples := 0, 0, 0
	for round, users := range [][]string{{"a", "a\x00", "ab", "b"}, {"a", "b", "c", "d"}} {
		withART := round == 1
		var pool [][]byte
		for _, u := range users {
			for _, v := range []uint64{1, 2} {
				pool = append(pool, kv.InternalKey(kv.CFDefault, []byte(u), v))
			}
		}
		var pick func(start int, cur [][]byte)
		check := func(keys [][]byte) {
			want := append([][]byte(nil), keys...)
			sort.Slice(want, func(i, j int) bool { return CompareKeys(want[i], want[j]) < 0 })
			// every insertion order of up to 3 keys
			perm := make([]int, len(keys))
			for i := range perm {
				perm[i] = i
			}
			var permute func(k int)
			permute = func(k int) {
				if k == len(perm) {
					sl := NewSkiplist(1 << 20)
					art := NewART(1 << 20)
					for _, idx := range perm {
						sl.Add(kv.NewEntry(keys[idx], []byte("v")))
						art.Add(kv.NewEntry(keys[idx], []byte("v")))
					}
					gotSL := verifCollect(sl.NewIterator(&Options{IsAsc: true}))
					gotART := verifCollect(art.NewIterator(&Options{IsAsc: true}))
					cases++
					if len(keys) > 1 {
						nontrivial++
					}
					engines := map[string][][]byte{"skiplist": gotSL}
					if withART {
						engines["art"] = gotART
					}
					for name, got := range engines {
						ok := len(got) == len(want)
						for i := 0; ok && i < len(got); i++ {
							ok = bytes.Equal(got[i], want[i])
						}
						if !ok {
							t.Fatalf("%s iterates %q, internal-key order is %q (inserted in order %v)", name, got, want, perm)
						}
					}
					for _, k := range keys {
						if !withART {
							break
						}
						a, b := sl.Search(k), art.Search(k)
						if !bytes.Equal(a.Value, b.Value) {
							t.Fatalf("lookup of %q differs: skiplist %q, art %q", k, a.Value, b.Value)
						}
					}
					return
				}
				for i := k; i < len(perm); i++ {
					perm[k], perm[i] = perm[i], perm[k]
					permute(k + 1)
					perm[k], perm[i] = perm[i], perm[k]
				}
			}
			permute(0)
			if samples < 3 && cases%97 == 1 {
				samples++
				fmt.Printf("BOUNDED-SAMPLE keys=%q\n", keys)
			}
		}
		pick = func(start int, cur [][]byte) {
			if len(cur) > 0 {
				check(cur)
			}
			if len(cur) == 3 {
				return
			}
			for i := start; i < len(pool); i++ {
				pick(i+1, append(append([][]byte(nil), cur...), pool[i]))
			}
		}
		pick(0, nil)
	}
	fmt.Printf("BOUNDED-CASES %d\n", cases)
	fmt.Printf("BOUNDED-NONTRIVIAL %d\n", nontrivial)
}
