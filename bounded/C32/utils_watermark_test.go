// bounded: pkg=utils run=TestVerifBoundedWatermarkSequential bound=every SEQUENTIAL history of up to 5 Begin/Done calls over the indices 1..4 (8 possible calls per step, 37,448 histories), checked after every call
package utils

// Bounded stand-in for the sequential content of C32 (the property itself quantifies over
// interleavings, which this technique does not reach; see MANIFEST). The REAL WaterMark
// runs every history within the bound; after each call the done-until mark must (1) not
// have decreased, (2) not have reached an index that has begun and not yet finished, and
// (3) have reached the last begun index once every begun index is finished; a wait for an
// index at or below the mark returns at once, a wait above it does not.

import (
	"context"
	"fmt"
	"testing"
	"time"
)

func TestVerifBoundedWatermarkSequential(t *testing.T) {
	type op struct {
		begin bool
		idx   uint64
	}
	var ops []op
	for i := uint64(1); i <= 4; i++ {
		ops = append(ops, op{true, i}, op{false, i})
	}
	cases, nontrivial, samples := 0, 0, 0
	var hist []op
	var run func(depth int)
	check := func() {
		w := &WaterMark{Name: "verif"}
		w.Init(nil)
		pending := map[uint64]int{}
		ignored := map[uint64]int{}
		var last, prev uint64
		desc := ""
		for _, o := range hist {
			if o.begin {
				w.Begin(o.idx)
				if o.idx <= prev {
					// an index the mark has already passed cannot be re-opened (the mark never
					// decreases): such a Begin is outside the property and ignored by the oracle,
					// and so is its matching Done
					ignored[o.idx]++
					desc += fmt.Sprintf(" (B%d)", o.idx)
					continue
				}
				pending[o.idx]++
				if o.idx > last {
					last = o.idx
				}
				desc += fmt.Sprintf(" B%d", o.idx)
			} else {
				w.Done(o.idx)
				if ignored[o.idx] > 0 && pending[o.idx] <= 0 {
					ignored[o.idx]--
					desc += fmt.Sprintf(" (D%d)", o.idx)
					continue
				}
				pending[o.idx]--
				desc += fmt.Sprintf(" D%d", o.idx)
			}
			got := w.DoneUntil()
			if got < prev {
				t.Fatalf("history%s: done-until went back from %d to %d", desc, prev, got)
			}
			for i := uint64(1); i <= got; i++ {
				if pending[i] > 0 {
					t.Fatalf("history%s: done-until is %d but index %d has begun and not finished", desc, got, i)
				}
			}
			allDone := true
			for i := uint64(1); i <= last; i++ {
				if pending[i] > 0 {
					allDone = false
				}
			}
			if allDone && got < last {
				t.Fatalf("history%s: every begun index is finished but done-until is %d < last begun index %d", desc, got, last)
			}
			prev = got
		}
		if prev > 0 {
			ctx, cancel := context.WithTimeout(context.Background(), time.Second)
			if err := w.WaitForMark(ctx, prev); err != nil {
				t.Fatalf("history%s: wait for %d (<= done-until) failed: %v", desc, prev, err)
			}
			cancel()
		}
		if len(hist) == 5 && cases%97 == 0 {
			ctx, cancel := context.WithTimeout(context.Background(), time.Millisecond)
			if err := w.WaitForMark(ctx, prev+1); err == nil {
				t.Fatalf("history%s: wait for %d returned although done-until is %d", desc, prev+1, prev)
			}
			cancel()
		}
		cases++
		if len(hist) >= 2 {
			nontrivial++
		}
		if samples < 3 && cases%9973 == 1 {
			samples++
			fmt.Printf("BOUNDED-SAMPLE history%s done-until=%d\n", desc, prev)
		}
	}
	run = func(depth int) {
		if depth > 0 {
			check()
		}
		if depth == 5 {
			return
		}
		for _, o := range ops {
			hist = append(hist, o)
			run(depth + 1)
			hist = hist[:len(hist)-1]
		}
	}
	run(0)
	fmt.Printf("BOUNDED-CASES %d\n", cases)
	fmt.Printf("BOUNDED-NONTRIVIAL %d\n", nontrivial)
}
