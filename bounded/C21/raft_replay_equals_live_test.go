// bounded: pkg=raftstore/engine run=TestVerifBoundedRaftReplayEqualsLive bound=histories of 1..3 operations on one raft group: first an append of 1..3 entries at term 1, then each of {append of 1..2 entries starting anywhere in 1..last+1 (conflicting overwrites shorter, equal and longer than the old suffix) at the current or next term; hard state with term in {current, next}, vote in {0, 7}, commit in {0, 1}}; after every history the WAL is synced, everything closed and reopened, and hard state, first/last index and every entry (term, data) compared with the live storage and with a sequence model
package engine

// Bounded stand-in for the REPLAY half of C21 ("recovered exactly ... the recovered log
// contains every persisted entry, with later overwrites of conflicting entries winning").
// The write half (persist before memory / pointer) is under contract (Append, SetHardState,
// updatePointer). The replay half is the callback closure inside OpenWALStorage, whose
// behaviour depends on the decoded payloads (decodeRaftEntries' results) and on etcd's
// MemoryStorage; a contract on the closure cannot say which records may be skipped without
// a functional contract on the decoders, which the verifier does not discharge (sequence of
// structs built in a loop). So the REAL storage is run over every history within the bound.

import (
	"fmt"
	"math"
	"path/filepath"
	"testing"

	"github.com/feichai0017/NoKV/manifest"
	myraft "github.com/feichai0017/NoKV/raft"
	"github.com/feichai0017/NoKV/wal"
)

type vbRaftOp struct {
	appendOp         bool
	lo, n, term      uint64
	vote, commit     uint64
}

type vbRaftModelEntry struct {
	term uint64
	data string
}

func (o vbRaftOp) String() string {
	if o.appendOp {
		return fmt.Sprintf("append[%d..%d]@%d", o.lo, o.lo+o.n-1, o.term)
	}
	return fmt.Sprintf("hardstate{term %d vote %d commit %d}", o.term, o.vote, o.commit)
}

func vbRaftObserve(t *testing.T, ws *WALStorage) (myraft.HardState, uint64, uint64, []vbRaftModelEntry) {
	hs, _, err := ws.InitialState()
	if err != nil {
		t.Fatal(err)
	}
	first, err := ws.FirstIndex()
	if err != nil {
		t.Fatal(err)
	}
	last, err := ws.LastIndex()
	if err != nil {
		t.Fatal(err)
	}
	var out []vbRaftModelEntry
	if last >= first {
		ents, err := ws.Entries(first, last+1, math.MaxUint64)
		if err != nil {
			t.Fatal(err)
		}
		for i, e := range ents {
			if e.Index != first+uint64(i) {
				t.Fatalf("entry %d has index %d", first+uint64(i), e.Index)
			}
			out = append(out, vbRaftModelEntry{e.Term, string(e.Data)})
		}
	}
	return hs, first, last, out
}

func TestVerifBoundedRaftReplayEqualsLive(t *testing.T) {
	cases, nontrivial := 0, 0
	sample := ""
	serial := 0
	run := func(hist []vbRaftOp) {
		cases++
		dir := t.TempDir()
		open := func() (*wal.Manager, *manifest.Manager, *WALStorage) {
			w, err := wal.Open(wal.Config{Dir: filepath.Join(dir, "wal")})
			if err != nil {
				t.Fatalf("open wal: %v", err)
			}
			m, err := manifest.Open(filepath.Join(dir, "manifest"), nil)
			if err != nil {
				t.Fatalf("open manifest: %v", err)
			}
			ws, err := OpenWALStorage(WALStorageConfig{GroupID: 1, WAL: w, Manifest: m})
			if err != nil {
				t.Fatalf("history %v: open wal storage: %v", hist, err)
			}
			return w, m, ws
		}
		w, m, ws := open()
		var model []vbRaftModelEntry // model[i] is index i+1
		var modelHS myraft.HardState
		overwrote := false
		for _, op := range hist {
			if op.appendOp {
				var ents []myraft.Entry
				if int(op.lo-1) < len(model) {
					overwrote = true
				}
				model = model[:op.lo-1]
				for i := uint64(0); i < op.n; i++ {
					serial++
					d := fmt.Sprintf("d%d", serial)
					ents = append(ents, myraft.Entry{Index: op.lo + i, Term: op.term, Data: []byte(d)})
					model = append(model, vbRaftModelEntry{op.term, d})
				}
				if err := ws.Append(ents); err != nil {
					t.Fatalf("history %v: %v: %v", hist, op, err)
				}
			} else {
				hs := myraft.HardState{Term: op.term, Vote: op.vote, Commit: op.commit}
				if err := ws.SetHardState(hs); err != nil {
					t.Fatalf("history %v: %v: %v", hist, op, err)
				}
				if !myraft.IsEmptyHardState(hs) {
					modelHS = hs
				}
			}
		}
		check := func(stage string, ws *WALStorage) {
			hs, first, last, ents := vbRaftObserve(t, ws)
			if first != 1 || last != uint64(len(model)) {
				t.Fatalf("history %v, %s: log spans %d..%d, the appended log spans 1..%d", hist, stage, first, last, len(model))
			}
			for i := range model {
				if ents[i] != model[i] {
					t.Fatalf("history %v, %s: entry %d is {term %d data %q}, the last append of that index wrote {term %d data %q}", hist, stage, i+1, ents[i].term, ents[i].data, model[i].term, model[i].data)
				}
			}
			if hs.Term != modelHS.Term || hs.Vote != modelHS.Vote || hs.Commit != modelHS.Commit {
				t.Fatalf("history %v, %s: hard state {term %d vote %d commit %d}, the last one persisted was {term %d vote %d commit %d}", hist, stage, hs.Term, hs.Vote, hs.Commit, modelHS.Term, modelHS.Vote, modelHS.Commit)
			}
		}
		check("live", ws)
		if err := w.Sync(); err != nil {
			t.Fatal(err)
		}
		_ = m.Close()
		_ = w.Close()
		w, m, ws = open()
		check("after restart", ws)
		_ = m.Close()
		_ = w.Close()
		if overwrote {
			nontrivial++
			if sample == "" && len(hist) == 3 {
				sample = fmt.Sprint(hist)
			}
		}
	}
	// next operations given the model state (last index, current term)
	nextOps := func(last, term uint64) []vbRaftOp {
		var ops []vbRaftOp
		for lo := uint64(1); lo <= last+1; lo++ {
			for n := uint64(1); n <= 2; n++ {
				for _, tm := range []uint64{term, term + 1} {
					ops = append(ops, vbRaftOp{appendOp: true, lo: lo, n: n, term: tm})
				}
			}
		}
		for _, tm := range []uint64{term, term + 1} {
			for _, vote := range []uint64{0, 7} {
				for _, commit := range []uint64{0, 1} {
					ops = append(ops, vbRaftOp{term: tm, vote: vote, commit: commit})
				}
			}
		}
		return ops
	}
	apply := func(last, term uint64, op vbRaftOp) (uint64, uint64) {
		if op.appendOp {
			return op.lo + op.n - 1, op.term
		}
		return last, op.term
	}
	for n0 := uint64(1); n0 <= 3; n0++ {
		first := vbRaftOp{appendOp: true, lo: 1, n: n0, term: 1}
		run([]vbRaftOp{first})
		l1, t1 := apply(0, 1, first)
		for _, op2 := range nextOps(l1, t1) {
			run([]vbRaftOp{first, op2})
			l2, t2 := apply(l1, t1, op2)
			for _, op3 := range nextOps(l2, t2) {
				run([]vbRaftOp{first, op2, op3})
			}
		}
	}
	fmt.Printf("BOUNDED-CASES %d\nBOUNDED-NONTRIVIAL %d\nBOUNDED-SAMPLE %s\n", cases, nontrivial, sample)
}
