// bounded: pkg=metrics run=TestVerifBoundedWALBacklog bound=raft pointer tables of 0..2 groups with Segment in {0,2,5} and SegmentIndex in {0,2,3,5}; segments 1..5 each with or without raft records (32 subsets); active segment 6
package metrics

// Bounded stand-in for the watchdog half of C36 (the deductive contract of
// AnalyzeWALBacklog, parked as X36, gets no solver answer). The real function runs on every
// case within the bound: every segment it reports removable - wal.Watchdog deletes exactly
// those - lies strictly below every raft group's Segment (when set) AND strictly below its
// SegmentIndex (when set), and holds raft records.

import (
	"fmt"
	"testing"

	"github.com/feichai0017/NoKV/manifest"
)

func TestVerifBoundedWALBacklog(t *testing.T) {
	segs := []uint32{0, 2, 5}
	idxs := []uint64{0, 2, 3, 5}
	var ptrs []manifest.RaftLogPointer
	for _, s := range segs {
		for _, i := range idxs {
			ptrs = append(ptrs, manifest.RaftLogPointer{Segment: s, SegmentIndex: i})
		}
	}
	var tables []map[uint64]manifest.RaftLogPointer
	tables = append(tables, nil)
	for a := range ptrs {
		tables = append(tables, map[uint64]manifest.RaftLogPointer{1: ptrs[a]})
		for b := range ptrs {
			tables = append(tables, map[uint64]manifest.RaftLogPointer{1: ptrs[a], 2: ptrs[b]})
		}
	}
	cases, nontrivial, samples := 0, 0, 0
	for _, table := range tables {
		for mask := 0; mask < 32; mask++ {
			segMetrics := map[uint32]WALRecordMetrics{}
			for id := uint32(1); id <= 5; id++ {
				m := WALRecordMetrics{Entries: 1}
				if mask&(1<<(id-1)) != 0 {
					m.RaftEntries = 1
				}
				segMetrics[id] = m
			}
			got := AnalyzeWALBacklog(&WALMetrics{ActiveSegment: 6, ActiveSize: 10, SegmentCount: 6}, segMetrics, table)
			cases++
			if len(table) > 0 && mask != 0 {
				nontrivial++
			}
			for _, id := range got.RemovableSegments {
				if segMetrics[id].RaftEntries == 0 {
					t.Fatalf("segment %d reported removable without raft records (ptrs=%v)", id, table)
				}
				for gid, p := range table {
					if p.Segment != 0 && id >= p.Segment {
						t.Fatalf("segment %d reported removable but raft group %d still appends into segment %d (ptrs=%v)", id, gid, p.Segment, table)
					}
					if p.SegmentIndex != 0 && uint64(id) >= p.SegmentIndex {
						t.Fatalf("segment %d reported removable but raft group %d has untruncated entries from segment %d on (ptrs=%v)", id, gid, p.SegmentIndex, table)
					}
				}
			}
			if samples < 3 && cases%997 == 1 {
				samples++
				fmt.Printf("BOUNDED-SAMPLE ptrs=%v raftSegmentsMask=%05b removable=%v\n", table, mask, got.RemovableSegments)
			}
		}
	}
	fmt.Printf("BOUNDED-CASES %d\n", cases)
	fmt.Printf("BOUNDED-NONTRIVIAL %d\n", nontrivial)
}
