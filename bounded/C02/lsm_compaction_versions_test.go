// bounded: pkg=lsm run=TestVerifBoundedCompactionKeepsVersions bound=one hot key with 1, 8 or 48 versions (100-byte values) between two neighbours, flushed to L0, then one real L0->L1 compaction with a target file size of 1 KiB or 4 KiB (output cut into several tables); every version read at its own version and above the newest
package lsm

// Bounded stand-in for versioned reads across a compaction (C02: "a read of (key, v) returns
// the newest stored version <= v ... no matter when ... compaction ... happens"). The
// compaction executor (subcompact / addKeys, table builder, level replacement) is outside
// what the verifier models, so the REAL compaction is run on every layout within the bound
// (the history is the one a seeding sub-agent wrote for change C02-1, generalised over the
// number of versions and the target file size) and every stored version must stay readable.
// Uses the package's own test helpers (buildLSM, buildCompactDef, tricky).

import (
	"bytes"
	"fmt"
	"testing"
	"time"

	"github.com/feichai0017/NoKV/kv"
	"github.com/feichai0017/NoKV/utils"
)

func TestVerifBoundedCompactionKeepsVersions(t *testing.T) {
	cases, nontrivial := 0, 0
	sample := ""
	for _, versions := range []uint64{1, 8, 48} {
		for _, fileSize := range []uint64{1024, 4096} {
			tables := verifBoundedCompactOnce(t, versions, fileSize)
			cases++
			if versions*100 > fileSize { // the hot key's versions alone exceed the target file size
				nontrivial++
				if sample == "" {
					sample = fmt.Sprintf("%d versions, target file size %d: %d output tables, every version readable", versions, fileSize, tables)
				}
			}
		}
	}
	fmt.Printf("BOUNDED-CASES %d\n", cases)
	fmt.Printf("BOUNDED-NONTRIVIAL %d\n", nontrivial)
	fmt.Printf("BOUNDED-SAMPLE %s\n", sample)
}

func verifBoundedCompactOnce(t *testing.T, versions uint64, fileSize uint64) int {
	clearDir()
	lsm := buildLSM()
	defer func() { w := lsm.wal; _ = lsm.Close(); _ = w.Close() }()

	hot := []byte("hot-key")
	valueOf := func(k []byte, v uint64) []byte {
		return append(bytes.Repeat([]byte{'x'}, 90), []byte(fmt.Sprintf("|%s@%d", k, v))...)
	}
	set := func(k []byte, v uint64) {
		e := kv.NewEntry(kv.KeyWithTs(k, v), valueOf(k, v))
		if err := lsm.Set(e); err != nil {
			t.Fatalf("set %s@%d: %v", k, v, err)
		}
	}
	// A long version history for one key, with a few neighbours on both sides.
	set([]byte("aaa"), 1)
	for v := uint64(1); v <= versions; v++ {
		set(hot, v)
	}
	set([]byte("zzz"), 1)

	// Push everything to L0.
	lsm.Rotate()
	deadline := time.Now().Add(10 * time.Second)
	for lsm.FlushPending() != 0 && time.Now().Before(deadline) {
		time.Sleep(10 * time.Millisecond)
	}
	if lsm.FlushPending() != 0 {
		t.Fatalf("flush did not finish")
	}
	if lsm.levels.levels[0].numTables() == 0 {
		t.Fatalf("expected L0 tables")
	}

	read := func(stage string) {
		t.Helper()
		for v := uint64(1); v <= versions; v++ {
			got, err := lsm.Get(kv.KeyWithTs(hot, v))
			if err != nil || got == nil {
				t.Fatalf("%d versions, target file size %d, %s: version %d of %s is not found (err=%v); every stored version must stay readable", versions, fileSize, stage, v, hot, err)
				continue
			}
			if !bytes.Equal(got.Value, valueOf(hot, v)) {
				t.Fatalf("%d versions, target file size %d, %s: read of %s@%d returned %q", versions, fileSize, stage, hot, v, got.Value[90:])
			}
			got.DecrRef()
		}
	}
	read("before compaction")

	// Compact L0 -> L1 with a small target file size, so the output is cut into
	// several tables.
	cd := buildCompactDef(lsm, 0, 0, 1)
	cd.plan.NextFileSize = int64(fileSize)
	tricky(cd.thisLevel.tablesSnapshot())
	if !lsm.levels.fillTablesL0ToLbase(cd) {
		t.Fatalf("fillTablesL0ToLbase failed")
	}
	if err := lsm.levels.runCompactDef(0, 0, *cd); err != nil {
		t.Fatalf("compaction: %v", err)
	}
	lsm.levels.compactState.Delete(cd.stateEntry())
	for _, tbl := range lsm.levels.levels[0].tablesSnapshot() {
		// Only tables that do not overlap the compacted range may stay behind.
		if utils.CompareUserKeys(tbl.MinKey(), hot) <= 0 && utils.CompareUserKeys(tbl.MaxKey(), hot) >= 0 {
			t.Fatalf("an L0 table still covers %s after the L0->L1 compaction", hot)
		}
	}
	if n := lsm.levels.levels[1].numTables(); n == 0 {
		t.Fatalf("expected L1 tables after compaction")
	}
	read("after compaction")

	// Greatest version not above the probe: probing above the newest version returns it.
	got, err := lsm.Get(kv.KeyWithTs(hot, versions+100))
	if err != nil || got == nil {
		t.Fatalf("get newest: %v", err)
	}
	if !bytes.Equal(got.Value, valueOf(hot, versions)) {
		t.Fatalf("%d versions: probe above newest returned %q", versions, got.Value[90:])
	}
	got.DecrRef()
	return lsm.levels.levels[1].numTables()
}
