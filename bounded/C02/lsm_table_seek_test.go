// bounded: pkg=lsm run=TestVerifBoundedTableSeek bound=one flushed SST of 60 user keys at version 5 (100-byte values, 1 KiB blocks: 7+ blocks); every probe (key, version) with the key stored or falling between/outside stored keys and version in {9,5,1}; forward table seek, reverse table seek and point lookup
package lsm

// Bounded stand-in for the SST seek path under versioned reads (C02: "a read of (key, v)
// returns the newest stored version <= v ... no matter when flush ... happens"; also the
// seek half of C06). The table iterator works on mmap'ed blocks and a protobuf index -
// outside what the verifier models - so the REAL flush, the REAL table iterator and the REAL
// LSM.Get are run on every probe within the bound and compared with a sorted-slice oracle:
// a forward seek lands on the first entry >= probe in internal-key order (user key
// ascending, version descending), a reverse seek on the last entry <= probe, and a point
// lookup at a version above the stored one finds the stored version (defect repaired: the
// forward seek did not continue into the next block, so the first key of every block but
// the first was reported not-found).

import (
	"bytes"
	"fmt"
	"os"
	"sort"
	"testing"
	"time"

	"github.com/feichai0017/NoKV/kv"
	"github.com/feichai0017/NoKV/manifest"
	"github.com/feichai0017/NoKV/utils"
	"github.com/feichai0017/NoKV/wal"
)

func TestVerifBoundedTableSeek(t *testing.T) {
	dir := t.TempDir()
	o := &Options{
		WorkDir:             dir,
		SSTableMaxSz:        1 << 20,
		MemTableSize:        1 << 20,
		BlockSize:           1024,
		BloomFalsePositive:  0.01,
		BaseLevelSize:       10 << 20,
		LevelSizeMultiplier: 10,
		BaseTableSize:       2 << 20,
		TableSizeMultiplier: 2,
		NumLevelZeroTables:  15,
		MaxLevelNum:         7,
		NumCompactors:       1,
	}
	c := make(chan map[manifest.ValueLogID]int64, 16)
	o.DiscardStatsCh = &c
	wlog, err := wal.Open(wal.Config{Dir: dir})
	if err != nil {
		t.Fatal(err)
	}
	l := NewLSM(o, wlog)
	l.SetDiscardStatsCh(&c)
	defer func() { _ = l.Close(); _ = wlog.Close(); _ = os.RemoveAll(dir) }()

	val := bytes.Repeat([]byte("x"), 100)
	const n = 60
	user := func(i int) []byte { return []byte(fmt.Sprintf("key%04d", 2*i+1)) } // odd numbers stored, even ones fall between
	var stored [][]byte
	for i := 0; i < n; i++ {
		ik := kv.KeyWithTs(user(i), 5)
		stored = append(stored, ik)
		if err := l.Set(kv.NewEntry(append([]byte(nil), ik...), val)); err != nil {
			t.Fatal(err)
		}
	}
	sort.Slice(stored, func(a, b int) bool { return utils.CompareKeys(stored[a], stored[b]) < 0 })
	l.Rotate()
	deadline := time.Now().Add(20 * time.Second)
	for l.FlushPending() != 0 && time.Now().Before(deadline) {
		time.Sleep(10 * time.Millisecond)
	}
	l.levels.levels[0].RLock()
	tables := append([]*table(nil), l.levels.levels[0].tables...)
	l.levels.levels[0].RUnlock()
	if len(tables) != 1 {
		t.Fatalf("expected one L0 table after the flush, have %d", len(tables))
	}
	tbl := tables[0]
	if nb := len(tbl.index().GetOffsets()); nb < 4 {
		t.Fatalf("the bound needs a table of several blocks, have %d", nb)
	}

	var probes [][]byte
	for i := 0; i <= 2*n+1; i++ {
		uk := []byte(fmt.Sprintf("key%04d", i))
		for _, ver := range []uint64{9, 5, 1} {
			probes = append(probes, kv.KeyWithTs(uk, ver))
		}
	}
	cases, nontrivial := 0, 0
	sample := ""
	for _, p := range probes {
		// oracle
		fwd := sort.Search(len(stored), func(i int) bool { return utils.CompareKeys(stored[i], p) >= 0 })
		rev := sort.Search(len(stored), func(i int) bool { return utils.CompareKeys(stored[i], p) > 0 }) - 1
		// forward seek
		it := tbl.NewIterator(&utils.Options{IsAsc: true})
		it.Seek(p)
		switch {
		case fwd == len(stored):
			if it.Valid() {
				t.Fatalf("forward Seek(%q@%d): past the last entry, but the iterator is valid at %q", kv.ParseKey(p), kv.ParseTs(p), it.Item().Entry().Key)
			}
		case !it.Valid():
			t.Fatalf("forward Seek(%q@%d): iterator invalid, the first entry >= probe is %q@%d (a block boundary must not end the seek)", kv.ParseKey(p), kv.ParseTs(p), kv.ParseKey(stored[fwd]), kv.ParseTs(stored[fwd]))
		case utils.CompareKeys(it.Item().Entry().Key, stored[fwd]) != 0:
			t.Fatalf("forward Seek(%q@%d): lands on %q, want %q", kv.ParseKey(p), kv.ParseTs(p), it.Item().Entry().Key, stored[fwd])
		}
		_ = it.Close()
		cases++
		// reverse seek
		rit := tbl.NewIterator(&utils.Options{IsAsc: false})
		rit.Seek(p)
		switch {
		case rev < 0:
			if rit.Valid() {
				t.Fatalf("reverse Seek(%q@%d): before the first entry, but the iterator is valid at %q", kv.ParseKey(p), kv.ParseTs(p), rit.Item().Entry().Key)
			}
		case !rit.Valid():
			t.Fatalf("reverse Seek(%q@%d): iterator invalid, the last entry <= probe is %q@%d", kv.ParseKey(p), kv.ParseTs(p), kv.ParseKey(stored[rev]), kv.ParseTs(stored[rev]))
		case utils.CompareKeys(rit.Item().Entry().Key, stored[rev]) != 0:
			t.Fatalf("reverse Seek(%q@%d): lands on %q, want %q", kv.ParseKey(p), kv.ParseTs(p), rit.Item().Entry().Key, stored[rev])
		}
		_ = rit.Close()
		cases++
		// point lookup through the LSM: the newest stored version <= probe version
		isStored := fwd < len(stored) && kv.SameKey(stored[fwd], p)
		got, gerr := l.Get(p)
		if isStored && kv.ParseTs(p) >= 5 {
			if gerr != nil || got == nil || !bytes.Equal(got.Value, val) {
				t.Fatalf("Get(%q@%d) after the flush: %v; version 5 of the key is stored in the SST", kv.ParseKey(p), kv.ParseTs(p), gerr)
			}
			if kv.ParseTs(p) > 5 {
				nontrivial++
				if sample == "" {
					sample = fmt.Sprintf("Get(%q@9) finds the stored version 5 in a table of %d blocks", kv.ParseKey(p), len(tbl.index().GetOffsets()))
				}
			}
		} else if gerr == nil && got != nil && len(got.Value) > 0 {
			t.Fatalf("Get(%q@%d): returned a value although no version <= %d of the key is stored", kv.ParseKey(p), kv.ParseTs(p), kv.ParseTs(p))
		}
		if got != nil {
			got.DecrRef()
		}
		cases++
	}
	fmt.Printf("BOUNDED-CASES %d\n", cases)
	fmt.Printf("BOUNDED-NONTRIVIAL %d\n", nontrivial)
	fmt.Printf("BOUNDED-SAMPLE %s\n", sample)
}
