// bounded: pkg=. run=TestVerifBoundedVersionedReadsInOrder bound=one key; every history of 1..3 writes whose versions are written in INCREASING order from {2,4,6} with a flush (memtable rotation) or not after each write; reads at versions 1..7
package NoKV

// Bounded stand-in for C02 restricted to histories that write versions in increasing
// order (the order the engine's source precedence - memtable, immutables, L0 - assumes):
// GetVersionedEntry(k, v) returns the entry with the greatest version not above v, or
// not-found. The REAL DB runs every history within the bound. Out-of-order histories are a
// separate stand-in (db_versioned_outoforder), where a defect is recorded.

import (
	"fmt"
	"path/filepath"
	"testing"
	"time"

	"github.com/feichai0017/NoKV/kv"
)

type verifVW struct {
	version uint64
	flush   bool
}

func verifRunVersioned(t *testing.T, hist []verifVW) (func(uint64) (string, bool), func()) {
	opt := NewDefaultOptions()
	opt.WorkDir = filepath.Join(t.TempDir(), "db")
	opt.NumCompactors = 0
	db := Open(opt)
	for _, w := range hist {
		if err := db.SetVersionedEntry(kv.CFDefault, []byte("k"), w.version, []byte(fmt.Sprintf("v%d", w.version)), 0); err != nil {
			t.Fatalf("set: %v", err)
		}
		if w.flush {
			db.lsm.Rotate()
			deadline := time.Now().Add(5 * time.Second)
			for db.lsm.FlushPending() != 0 && time.Now().Before(deadline) {
				time.Sleep(5 * time.Millisecond)
			}
		}
	}
	read := func(v uint64) (string, bool) {
		e, err := db.GetVersionedEntry(kv.CFDefault, []byte("k"), v)
		if err != nil || e == nil {
			return "", false
		}
		return string(e.Value), true
	}
	return read, func() { _ = db.Close() }
}

func verifCheckVersioned(t *testing.T, hist []verifVW) {
	read, closeDB := verifRunVersioned(t, hist)
	defer closeDB()
	for v := uint64(1); v <= 7; v++ {
		var best uint64
		for _, w := range hist {
			if w.version <= v && w.version > best {
				best = w.version
			}
		}
		got, ok := read(v)
		if best == 0 {
			if ok {
				t.Fatalf("history %+v: read at %d returned %q, want not-found", hist, v, got)
			}
			continue
		}
		if want := fmt.Sprintf("v%d", best); !ok || got != want {
			t.Fatalf("history %+v: read at %d returned %q (found=%v), want %q (greatest version not above %d)", hist, v, got, ok, want, v)
		}
	}
}

func TestVerifBoundedVersionedReadsInOrder(t *testing.T) {
	versions := []uint64{2, 4, 6}
	cases, nontrivial, samples := 0, 0, 0
	var rec func(start int, cur []verifVW)
	rec = func(start int, cur []verifVW) {
		if len(cur) > 0 {
			verifCheckVersioned(t, cur)
			cases++
			if len(cur) > 1 {
				nontrivial++
			}
			if samples < 3 && cases%9 == 1 {
				samples++
				fmt.Printf("BOUNDED-SAMPLE history=%+v\n", cur)
			}
		}
		for i := start; i < len(versions); i++ {
			for _, fl := range []bool{false, true} {
				rec(i+1, append(append([]verifVW(nil), cur...), verifVW{versions[i], fl}))
			}
		}
	}
	rec(0, nil)
	fmt.Printf("BOUNDED-CASES %d\n", cases)
	fmt.Printf("BOUNDED-NONTRIVIAL %d\n", nontrivial)
}
