// bounded: pkg=. run=TestVerifBoundedVersionedReadsOutOfOrder bound=one key; the two-write histories in which the NEWER version is written (and flushed) first: versions (6 then 4), (6 then 2), (4 then 2), first write flushed, second in the memtable; reads at versions 1..7
package NoKV

// Bounded stand-in for C02 on out-of-order version histories (the transaction layer can
// produce them: a commit timestamp is assigned before the write reaches the LSM). Known
// finding: the first source that has the key answers, so with k@6 flushed and k@4 in the
// memtable a read at 7 returns v4.

import (
	"fmt"
	"path/filepath"
	"testing"
	"time"

	"github.com/feichai0017/NoKV/kv"
)

type verifVW2 struct {
	version uint64
	flush   bool
}

func verifRunVersioned2(t *testing.T, hist []verifVW2) (func(uint64) (string, bool), func()) {
	opt := NewDefaultOptions()
	opt.WorkDir = filepath.Join(t.TempDir(), "db")
	opt.NumCompactors = 0
	db := Open(opt)
	for _, w := range hist {
		if err := db.SetVersionedEntry(kv.CFDefault, []byte("k"), w.version, []byte(fmt.Sprintf("v%d", w.version)), 0); err != nil {
			t.Fatalf("set: %v", err)
		}
		if w.flush {
			db.lsm.Rotate()
			deadline := time.Now().Add(5 * time.Second)
			for db.lsm.FlushPending() != 0 && time.Now().Before(deadline) {
				time.Sleep(5 * time.Millisecond)
			}
		}
	}
	read := func(v uint64) (string, bool) {
		e, err := db.GetVersionedEntry(kv.CFDefault, []byte("k"), v)
		if err != nil || e == nil {
			return "", false
		}
		return string(e.Value), true
	}
	return read, func() { _ = db.Close() }
}

func verifCheckVersioned2(t *testing.T, hist []verifVW2) {
	read, closeDB := verifRunVersioned2(t, hist)
	defer closeDB()
	for v := uint64(1); v <= 7; v++ {
		var best uint64
		for _, w := range hist {
			if w.version <= v && w.version > best {
				best = w.version
			}
		}
		got, ok := read(v)
		if best == 0 {
			if ok {
				t.Fatalf("history %+v: read at %d returned %q, want not-found", hist, v, got)
			}
			continue
		}
		if want := fmt.Sprintf("v%d", best); !ok || got != want {
			t.Fatalf("history %+v: read at %d returned %q (found=%v), want %q (greatest version not above %d)", hist, v, got, ok, want, v)
		}
	}
}

func TestVerifBoundedVersionedReadsOutOfOrder(t *testing.T) {
	cases := 0
	for _, pair := range [][2]uint64{{6, 4}, {6, 2}, {4, 2}} {
		fmt.Printf("BOUNDED-SAMPLE history=%d(flushed) then %d\n", pair[0], pair[1])
		verifCheckVersioned2(t, []verifVW2{{pair[0], true}, {pair[1], false}})
		cases++
	}
	fmt.Printf("BOUNDED-CASES %d\n", cases)
	fmt.Printf("BOUNDED-NONTRIVIAL %d\n", cases)
}
