// bounded: pkg=lsm run=TestVerifBoundedMemtableSources bound=0..3 unflushed immutable memtables plus the active one; key k written at increasing versions 5,6,.. (and, separately, rewritten at ONE version) to any non-empty subset of them; reads at version 100 and at each written version; skiplist memtable
package lsm

// Bounded stand-in for the memtable half of versioned reads (C02: "a read of (key, v)
// returns the newest stored version <= v"): LSM.Get walks the active memtable and then the
// immutable memtables, which must be from the most recently rotated to the oldest, because
// the first memtable that holds a version <= v answers. The memtables are arena-backed and
// outside what the verifier models, so the REAL Set / rotate / Get run on every layout
// within the bound and are compared with the newest stored version <= v.

import (
	"fmt"
	"os"
	"path/filepath"
	"testing"

	"github.com/feichai0017/NoKV/kv"
	"github.com/feichai0017/NoKV/manifest"
	"github.com/feichai0017/NoKV/wal"
)

func verifBoundedOpenLSMMem(dir string) *LSM {
	o := &Options{
		WorkDir:             dir,
		SSTableMaxSz:        1 << 20,
		MemTableSize:        1 << 20,
		BlockSize:           1024,
		BloomFalsePositive:  0,
		BaseLevelSize:       10 << 20,
		LevelSizeMultiplier: 10,
		BaseTableSize:       2 << 20,
		TableSizeMultiplier: 2,
		NumLevelZeroTables:  15,
		MaxLevelNum:         7,
		NumCompactors:       1,
	}
	c := make(chan map[manifest.ValueLogID]int64, 16)
	o.DiscardStatsCh = &c
	wlog, err := wal.Open(wal.Config{Dir: dir})
	if err != nil {
		panic(err)
	}
	l := NewLSM(o, wlog)
	l.SetDiscardStatsCh(&c)
	return l
}

func TestVerifBoundedMemtableSources(t *testing.T) {
	base := t.TempDir()
	cases, nontrivial := 0, 0
	sample := ""
	for _, sameVersion := range []bool{false, true} {
		for nImm := 0; nImm <= 3; nImm++ {
			for mask := 1; mask < 1<<(nImm+1); mask++ { // bit j: memtable j (creation order, last = active) holds k
				dir := filepath.Join(base, fmt.Sprintf("c%v_%d_%d", sameVersion, nImm, mask))
				if err := os.MkdirAll(dir, 0o755); err != nil {
					t.Fatal(err)
				}
				l := verifBoundedOpenLSMMem(dir)
				type w struct {
					ver uint64
					val string
				}
				var writes []w
				for j := 0; j <= nImm; j++ {
					if mask&(1<<j) != 0 {
						ver := uint64(5 + j)
						if sameVersion {
							ver = 5
						}
						val := fmt.Sprintf("v%d", j)
						writes = append(writes, w{ver, val})
						if err := l.Set(kv.NewEntry(kv.KeyWithTs([]byte("k"), ver), []byte(val))); err != nil {
							t.Fatal(err)
						}
					}
					if j < nImm {
						// rotate without handing the old memtable to the flusher (a flush that has not run yet)
						l.lock.Lock()
						l.rotateLocked()
						l.lock.Unlock()
					}
				}
				probes := []uint64{100}
				for _, x := range writes {
					probes = append(probes, x.ver)
				}
				for _, pv := range probes {
					want := ""
					for _, x := range writes { // writes are in time order with non-decreasing versions
						if x.ver <= pv {
							want = x.val
						}
					}
					got, err := l.Get(kv.KeyWithTs([]byte("k"), pv))
					if err != nil || got == nil || string(got.Value) != want {
						var gv []byte
						if got != nil {
							gv = got.Value
						}
						t.Fatalf("%d unflushed immutable memtables, k written to memtables %b (bit j = j-th oldest, last = active) at versions %+v: Get(k@%d) yields %q (err=%v), the newest stored version <= %d holds %q", nImm, mask, writes, pv, gv, err, pv, want)
					}
					got.DecrRef()
					cases++
				}
				wl := l.wal
				_ = l.Close()
				_ = wl.Close()
				_ = os.RemoveAll(dir)
				if len(writes) > 1 {
					nontrivial++
					if sample == "" && nImm == 2 {
						sample = fmt.Sprintf("2 immutables, holders mask %b, writes %+v: Get(k@100) yields the last write", mask, writes)
					}
				}
			}
		}
	}
	fmt.Printf("BOUNDED-CASES %d\n", cases)
	fmt.Printf("BOUNDED-NONTRIVIAL %d\n", nontrivial)
	fmt.Printf("BOUNDED-SAMPLE %s\n", sample)
}
