// bounded: pkg=. run=TestVerifBoundedHasConflict bound=read sets over the key fingerprints {1,2,3} (all 8 subsets), read timestamps 0..4, 0..2 committed transactions with commit timestamps 1..4 and write sets over the same fingerprints, intent table absent or consistent with the committed list
package NoKV

// Bounded stand-in for the conflict check of C03 (nested loops over a slice of maps: the
// deductive contract was not attempted after validateRequestKeys' nested-loop contract got
// no solver answer). The REAL oracle.hasConflict runs on every case within the bound and
// is compared with the statement: a read-write commit conflicts iff another transaction
// committed, after this one's read timestamp, a write to a key it read.

import (
	"fmt"
	"testing"
)

func TestVerifBoundedHasConflict(t *testing.T) {
	keys := []uint64{1, 2, 3}
	subset := func(mask int) []uint64 {
		var out []uint64
		for i, k := range keys {
			if mask&(1<<i) != 0 {
				out = append(out, k)
			}
		}
		return out
	}
	type ct struct {
		ts   uint64
		mask int
	}
	var lists [][]ct
	lists = append(lists, nil)
	for ts := uint64(1); ts <= 4; ts++ {
		for m := 0; m < 8; m++ {
			lists = append(lists, []ct{{ts, m}})
			for ts2 := ts + 1; ts2 <= 4; ts2++ {
				for m2 := 0; m2 < 8; m2++ {
					lists = append(lists, []ct{{ts, m}, {ts2, m2}})
				}
			}
		}
	}
	cases, nontrivial, samples := 0, 0, 0
	for _, list := range lists {
		for readMask := 0; readMask < 8; readMask++ {
			for readTs := uint64(0); readTs <= 4; readTs++ {
				for _, withIntent := range []bool{false, true} {
					o := &oracle{detectConflicts: true}
					if withIntent {
						o.intentTable = map[uint64]uint64{}
					}
					want := false
					for _, c := range list {
						ck := map[uint64]struct{}{}
						for _, k := range subset(c.mask) {
							ck[k] = struct{}{}
							if withIntent {
								o.intentTable[k] = c.ts // lists are in increasing ts order: latest wins
							}
						}
						o.committedTxns = append(o.committedTxns, committedTxn{ts: c.ts, conflictKeys: ck})
						if c.ts > readTs {
							for _, r := range subset(readMask) {
								if _, hit := ck[r]; hit {
									want = true
								}
							}
						}
					}
					txn := &Txn{reads: subset(readMask), readTs: readTs}
					got := o.hasConflict(txn)
					cases++
					if len(list) > 0 && readMask != 0 {
						nontrivial++
					}
					if got != want {
						t.Fatalf("hasConflict=%v, the property says %v: reads=%v readTs=%d committed=%v intentTable=%v", got, want, subset(readMask), readTs, list, withIntent)
					}
					if samples < 3 && cases%20011 == 1 {
						samples++
						fmt.Printf("BOUNDED-SAMPLE reads=%v readTs=%d committed=%v intent=%v conflict=%v\n", subset(readMask), readTs, list, withIntent, want)
					}
				}
			}
		}
	}
	fmt.Printf("BOUNDED-CASES %d\n", cases)
	fmt.Printf("BOUNDED-NONTRIVIAL %d\n", nontrivial)
}
