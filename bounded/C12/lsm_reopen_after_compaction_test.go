// bounded: pkg=lsm run=TestVerifBoundedReopenAfterCompaction bound=4, 5 or 6 one-key L0 tables merged by one L0->L0 compaction (its output gets a file id above the active WAL segment), one more write, clean close/reopen, 1..4 memtable rotations with one write each, second clean close/reopen; every key read after each stage
package lsm

// Bounded stand-in for C12 across compactions ("reopening the directory yields exactly the
// same readable contents ... repeated any number of times"): memtable / WAL segment ids,
// flush outputs and compaction outputs come from one allocator that recovery must restore
// above EVERY id in use, or a later memtable reuses the id of a live table and its flush
// overwrites that file. Recovery's bookkeeping runs through the WAL manager and the level
// manager, outside what the verifier models, so the REAL close/reopen is run on every layout
// within the bound (the history is the one a seeding sub-agent wrote for change C12-6,
// generalised over the number of tables and rotations). Uses the package's test helpers.

import (
	"fmt"
	"testing"
	"time"

	"github.com/feichai0017/NoKV/kv"
	"github.com/stretchr/testify/require"
)

func verifBoundedWaitFlushIdleC(t *testing.T, lsm *LSM) {
	t.Helper()
	deadline := time.Now().Add(5 * time.Second)
	for time.Now().Before(deadline) {
		lsm.lock.RLock()
		n := len(lsm.immutables)
		lsm.lock.RUnlock()
		if n == 0 && lsm.FlushPending() == 0 {
			return
		}
		time.Sleep(10 * time.Millisecond)
	}
	t.Fatalf("timeout waiting for flush to drain")
}

func verifBoundedReopenC(t *testing.T, lsm *LSM) *LSM {
	t.Helper()
	require.NoError(t, lsm.Close())
	require.NoError(t, lsm.wal.Close())
	return buildLSM()
}

// TestDemoReopenAfterCompactionKeepsContents checks C12 over two close/reopen
// cycles with a compaction before the first close and ordinary writes (with
// memtable rotation) after it: every key written and acknowledged must stay
// readable with its value.

func TestVerifBoundedReopenAfterCompaction(t *testing.T) {
	cases, nontrivial := 0, 0
	sample := ""
	for _, nL0 := range []int{4, 5, 6} {
		for nAfter := 1; nAfter <= 4; nAfter++ {
			verifBoundedReopenAfterCompaction(t, nL0, nAfter)
			cases++
			if nAfter >= 2 {
				nontrivial++
				if sample == "" {
					sample = fmt.Sprintf("%d L0 tables merged, reopen, %d rotations, reopen: all %d keys readable", nL0, nAfter, nL0+1+nAfter)
				}
			}
		}
	}
	fmt.Printf("BOUNDED-CASES %d\n", cases)
	fmt.Printf("BOUNDED-NONTRIVIAL %d\n", nontrivial)
	fmt.Printf("BOUNDED-SAMPLE %s\n", sample)
}

func verifBoundedReopenAfterCompaction(t *testing.T, nL0 int, nAfter int) {
	clearDir()
	lsm := buildLSM()

	want := map[string]string{}
	put := func(l *LSM, k string, ver uint64, v string) {
		require.NoError(t, l.Set(kv.NewEntry(kv.KeyWithTs([]byte(k), ver), []byte(v))))
		want[k] = v
	}
	check := func(l *LSM, stage string) {
		for k, v := range want {
			got, err := l.Get(kv.KeyWithTs([]byte(k), 1000))
			if err != nil || got == nil {
				t.Fatalf("%d L0 tables merged by an L0->L0 compaction, %d memtable rotations after the first reopen, %s: key %s is gone (err=%v); a clean close/reopen must keep every key", nL0, nAfter, stage, k, err)
			}
			if string(got.Value) != v {
				t.Fatalf("%d L0 tables, %d rotations after the reopen, %s: key %s reads %q, want %q", nL0, nAfter, stage, k, got.Value, v)
			}
			got.DecrRef()
		}
	}

	// Five L0 tables, one key each.
	for i := range nL0 {
		put(lsm, fmt.Sprintf("demo-old-%02d", i), uint64(i+1), fmt.Sprintf("old-%02d", i))
		lsm.Rotate()
		verifBoundedWaitFlushIdleC(t, lsm)
	}
	require.Equal(t, nL0, lsm.levels.levels[0].numTables())

	// One L0->L0 compaction: its output table gets a fresh file id, larger than
	// the id of the active memtable / WAL segment.
	cd := buildCompactDef(lsm, 0, 0, 0)
	tricky(cd.thisLevel.tablesSnapshot())
	require.True(t, lsm.levels.fillTablesL0ToL0(cd))
	require.NoError(t, lsm.levels.runCompactDef(0, 0, *cd))
	lsm.levels.compactState.Delete(cd.stateEntry())
	require.Equal(t, 1, lsm.levels.levels[0].numTables())

	put(lsm, "demo-mid-00", 10, "mid-00")
	check(lsm, "before first close")

	// First clean close / reopen.
	lsm = verifBoundedReopenC(t, lsm)
	check(lsm, "after first reopen")

	// Ordinary work after the reopen: a few writes with memtable rotations.
	for i := range nAfter {
		put(lsm, fmt.Sprintf("demo-new-%02d", i), uint64(20+i), fmt.Sprintf("new-%02d", i))
		lsm.Rotate()
		verifBoundedWaitFlushIdleC(t, lsm)
	}

	// Second clean close / reopen: everything must still be there.
	lsm = verifBoundedReopenC(t, lsm)
	defer func() {
		_ = lsm.Close()
		_ = lsm.wal.Close()
	}()
	check(lsm, "after second reopen")
}
