// bounded: pkg=lsm run=TestVerifBoundedMaxVersion bound=1..3 levels (a level handler may be nil); per level 0..2 main tables and 0..2 ingest-buffer tables (shard 0), each nil or with max version 1..3
package lsm

// Bounded stand-in for the functional contract of levelManager.maxVersion (C12), which the
// verifier cannot discharge (two-variable quantifier over nested slices): the REAL function
// is run on every layout within the bound and compared with the maximum over all tables of
// all levels, main tables and ingest-buffer tables alike.

import (
	"fmt"
	"testing"
)

func verifBoundedTableLists() [][]*table {
	mk := func(v uint64) *table {
		if v == 0 {
			return nil
		}
		return &table{maxVersion: v}
	}
	out := [][]*table{nil}
	for a := uint64(0); a <= 3; a++ {
		out = append(out, []*table{mk(a)})
		for b := uint64(0); b <= 3; b++ {
			out = append(out, []*table{mk(a), mk(b)})
		}
	}
	return out
}

func TestVerifBoundedMaxVersion(t *testing.T) {
	lists := verifBoundedTableLists()
	type levelSpec struct {
		nilHandler   bool
		main, ingest []*table
	}
	var specs []levelSpec
	specs = append(specs, levelSpec{nilHandler: true})
	for _, m := range lists {
		for _, in := range lists {
			specs = append(specs, levelSpec{main: m, ingest: in})
		}
	}
	maxOf := func(ts []*table, cur uint64) uint64 {
		for _, tb := range ts {
			if tb != nil && tb.maxVersion > cur {
				cur = tb.maxVersion
			}
		}
		return cur
	}
	cases := 0
	check := func(ls []levelSpec) {
		lm := &levelManager{}
		var want uint64
		for _, sp := range ls {
			if sp.nilHandler {
				lm.levels = append(lm.levels, nil)
				continue
			}
			lh := &levelHandler{tables: sp.main}
			if sp.ingest != nil {
				lh.ingest.shards = []ingestShard{{tables: sp.ingest}}
			}
			lm.levels = append(lm.levels, lh)
			want = maxOf(sp.main, want)
			want = maxOf(sp.ingest, want)
		}
		cases++
		if got := lm.maxVersion(); got != want {
			desc := ""
			for i, sp := range ls {
				desc += fmt.Sprintf(" L%d{nil=%v main=%d ingest=%d}", i, sp.nilHandler, len(sp.main), len(sp.ingest))
			}
			t.Fatalf("maxVersion() = %d, want %d for layout%s", got, want, desc)
		}
	}
	// one and two levels exhaustively; three levels with the middle level drawn from a
	// thinned set (every 7th spec) to keep the run in seconds
	for _, a := range specs {
		check([]levelSpec{a})
		for _, b := range specs {
			check([]levelSpec{a, b})
		}
	}
	for i, a := range specs {
		if i%5 != 0 {
			continue
		}
		for j, b := range specs {
			if j%7 != 0 {
				continue
			}
			for k, c := range specs {
				if k%5 != 0 {
					continue
				}
				check([]levelSpec{a, b, c})
			}
		}
	}
	if (*levelManager)(nil).maxVersion() != 0 {
		t.Fatalf("nil manager")
	}
	fmt.Printf("BOUNDED-CASES %d\n", cases)
}
