// bounded: pkg=lsm run=TestVerifBoundedWalReplay bound=1..2 entries that live only in the WAL at close; user keys {a,b}, versions 1..3, expiry in {none, already elapsed, one hour ahead}, plain value or tombstone; skiplist memtable; one close/reopen
package lsm

// Bounded stand-in for the WAL half of C12 ("reopening the directory yields exactly the
// same readable contents: every key, every stored version and all expiry metadata").
// openMemTable replays WAL records into an arena-backed index through a callback - outside
// what the verifier models - so the REAL NewLSM / Set / Close / NewLSM path is run on every
// combination within the bound: after the reopen every stored (key, version) must still be
// there with its value, meta and expiry (an entry whose TTL has elapsed is still a stored
// version: it shadows older versions), and MaxVersion() must cover the largest version.

import (
	"bytes"
	"fmt"
	"os"
	"path/filepath"
	"testing"
	"time"

	"github.com/feichai0017/NoKV/kv"
	"github.com/feichai0017/NoKV/manifest"
	"github.com/feichai0017/NoKV/wal"
)

type verifBoundedWalEntry struct {
	key     string
	ver     uint64
	expires uint64
	del     bool
}

func verifBoundedOpenLSM(dir string) *LSM {
	o := &Options{
		WorkDir:             dir,
		SSTableMaxSz:        1 << 20,
		MemTableSize:        1 << 20,
		BlockSize:           1024,
		BloomFalsePositive:  0,
		BaseLevelSize:       10 << 20,
		LevelSizeMultiplier: 10,
		BaseTableSize:       2 << 20,
		TableSizeMultiplier: 2,
		NumLevelZeroTables:  15,
		MaxLevelNum:         7,
		NumCompactors:       1,
	}
	c := make(chan map[manifest.ValueLogID]int64, 16)
	o.DiscardStatsCh = &c
	wlog, err := wal.Open(wal.Config{Dir: dir})
	if err != nil {
		panic(err)
	}
	l := NewLSM(o, wlog)
	l.SetDiscardStatsCh(&c)
	return l
}

func TestVerifBoundedWalReplay(t *testing.T) {
	base := t.TempDir()
	future := uint64(time.Now().Unix()) + 3600
	var grid []verifBoundedWalEntry
	for _, k := range []string{"a", "b"} {
		for ver := uint64(1); ver <= 3; ver++ {
			for _, exp := range []uint64{0, 1, future} {
				for _, del := range []bool{false, true} {
					grid = append(grid, verifBoundedWalEntry{k, ver, exp, del})
				}
			}
		}
	}
	var combos [][]verifBoundedWalEntry
	for _, e := range grid {
		combos = append(combos, []verifBoundedWalEntry{e})
	}
	// pairs: same key with different versions (shadowing), and different keys; thinned by stride
	n := 0
	for _, e1 := range grid {
		for _, e2 := range grid {
			if e1.key == e2.key && e1.ver == e2.ver {
				continue
			}
			n++
			if e1.key == e2.key || n%5 == 0 {
				combos = append(combos, []verifBoundedWalEntry{e1, e2})
			}
		}
	}
	cases, nontrivial := 0, 0
	sample := ""
	for ci, combo := range combos {
		dir := filepath.Join(base, fmt.Sprintf("c%d", ci))
		if err := os.MkdirAll(dir, 0o755); err != nil {
			t.Fatal(err)
		}
		l := verifBoundedOpenLSM(dir)
		var maxVer uint64
		expired := false
		for _, we := range combo {
			e := kv.NewEntry(kv.KeyWithTs([]byte(we.key), we.ver), []byte(fmt.Sprintf("v-%s-%d", we.key, we.ver)))
			e.ExpiresAt = we.expires
			if we.del {
				e.Meta = kv.BitDelete
			}
			if err := l.Set(e); err != nil {
				t.Fatalf("combo %v: Set: %v", combo, err)
			}
			if we.ver > maxVer {
				maxVer = we.ver
			}
			if we.expires == 1 {
				expired = true
			}
		}
		w := l.wal
		if err := l.Close(); err != nil {
			t.Fatalf("combo %v: Close: %v", combo, err)
		}
		if err := w.Close(); err != nil {
			t.Fatalf("combo %v: wal Close: %v", combo, err)
		}
		r := verifBoundedOpenLSM(dir)
		for _, we := range combo {
			got, err := r.Get(kv.KeyWithTs([]byte(we.key), we.ver))
			if err != nil || got == nil {
				t.Fatalf("entries %+v written before a clean close: after reopen version %d of key %q is gone (err=%v); every stored version must survive, expired or not", combo, we.ver, we.key, err)
			}
			wantVal := []byte(fmt.Sprintf("v-%s-%d", we.key, we.ver))
			wantMeta := byte(0)
			if we.del {
				wantMeta = kv.BitDelete
			}
			if !bytes.Equal(got.Value, wantVal) || got.ExpiresAt != we.expires || got.Meta&kv.BitDelete != wantMeta {
				t.Fatalf("entries %+v written before a clean close: after reopen the newest stored version <= %d of key %q is value=%q expires=%d meta=%d, want value=%q expires=%d meta=%d", combo, we.ver, we.key, got.Value, got.ExpiresAt, got.Meta, wantVal, we.expires, wantMeta)
			}
			got.DecrRef()
		}
		if mv := r.MaxVersion(); mv < maxVer {
			t.Fatalf("entries %+v written before a clean close: after reopen MaxVersion()=%d < %d", combo, mv, maxVer)
		}
		rw := r.wal
		_ = r.Close()
		_ = rw.Close()
		_ = os.RemoveAll(dir)
		cases++
		if expired {
			nontrivial++
			if sample == "" && len(combo) == 2 {
				sample = fmt.Sprintf("%+v survive a close/reopen with value, meta and expiry", combo)
			}
		}
	}
	fmt.Printf("BOUNDED-CASES %d\n", cases)
	fmt.Printf("BOUNDED-NONTRIVIAL %d\n", nontrivial)
	fmt.Printf("BOUNDED-SAMPLE %s\n", sample)
}
