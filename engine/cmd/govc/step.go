package main

import (
	"fmt"
	"go/token"
	"go/types"

	"golang.org/x/tools/go/ssa"
)

func (a *Activation) set(v ssa.Value, x Val) { a.env[v] = x }

// step executes one non-terminator instruction.
func (a *Activation) step(st *State, ins ssa.Instruction) {
	g := a.g
	switch ins := ins.(type) {
	case *ssa.DebugRef:
	case *ssa.Alloc:
		elemT := ins.Type().(*types.Pointer).Elem()
		if a.regCell[ins] {
			k := cellKey{a.id, ins}
			st.cells[k] = Val{T: g.zero(elemT)}
			a.set(ins, Val{Cell: &k})
			return
		}
		loc := g.newObject(st, ins.Comment)
		a.zeroInit(st, loc, elemT)
		a.set(ins, Val{T: loc})
		if !ins.Heap && len(g.localProt) < 600 {
			// a local whose address does not escape (go/ssa's analysis): no callee can
			// reach it, its cells keep their values across calls
			for _, pl := range a.leafLocs(loc, elemT) {
				pl.alloc = ins
				g.localProt = append(g.localProt, pl)
			}
		}
	case *ssa.Store:
		addr := a.val(st, ins.Addr)
		v := a.val(st, ins.Val)
		if addr.Cell != nil {
			st.cells[*addr.Cell] = v
			return
		}
		a.nilCheck(st, addr.T, ins.Pos())
		a.frameCheck(st, addr.T, ins.Pos())
		t := ins.Val.Type()
		g.store(st, addr.T, t, a.asTerm(st, v, t))
	case *ssa.UnOp:
		a.unop(st, ins)
	case *ssa.BinOp:
		x := a.val(st, ins.X)
		y := a.val(st, ins.Y)
		a.set(ins, Val{T: a.binop(st, ins.Op, x.T, y.T, ins.X.Type(), ins.Y.Type(), ins.Pos())})
	case *ssa.Convert:
		a.set(ins, Val{T: a.convert(st, a.val(st, ins.X).T, ins.X.Type(), ins.Type(), ins.Pos())})
	case *ssa.ChangeType:
		x := a.val(st, ins.X)
		a.set(ins, x)
	case *ssa.MultiConvert:
		a.set(ins, Val{T: a.convert(st, a.val(st, ins.X).T, ins.X.Type(), ins.Type(), ins.Pos())})
	case *ssa.ChangeInterface:
		a.set(ins, a.val(st, ins.X))
	case *ssa.MakeInterface:
		a.set(ins, Val{T: a.makeIface(st, a.val(st, ins.X), ins.X.Type())})
	case *ssa.TypeAssert:
		a.typeAssert(st, ins)
	case *ssa.Extract:
		t := a.val(st, ins.Tuple)
		if ins.Index < len(t.Tuple) {
			a.set(ins, t.Tuple[ins.Index])
		} else {
			a.set(ins, Val{T: g.fresh("ext", g.sortOf(ins.Type()))})
		}
	case *ssa.Field:
		x := a.val(st, ins.X)
		si := g.structInfoOf(ins.X.Type())
		a.set(ins, Val{T: app(si.fsorts[ins.Field], si.accs[ins.Field], x.T)})
	case *ssa.FieldAddr:
		x := a.val(st, ins.X)
		a.nilCheck(st, x.T, ins.Pos())
		st0 := ins.X.Type().Underlying().(*types.Pointer).Elem()
		a.set(ins, Val{T: g.fldLoc(x.T, st0, ins.Field)})
	case *ssa.IndexAddr:
		a.indexAddr(st, ins)
	case *ssa.Index:
		a.index(st, ins)
	case *ssa.Slice:
		a.slice(st, ins)
	case *ssa.MakeSlice:
		a.makeSlice(st, ins)
	case *ssa.MakeClosure:
		c := &Closure{Fn: ins.Fn.(*ssa.Function)}
		for _, b := range ins.Bindings {
			c.Bindings = append(c.Bindings, a.val(st, b))
		}
		a.set(ins, Val{Clo: c, T: g.fnTerm(c)})
	case *ssa.MakeMap:
		loc := g.newObject(st, "map")
		a.mapInitEmpty(st, loc, ins.Type())
		a.set(ins, Val{T: loc})
	case *ssa.MakeChan:
		loc := g.newObject(st, "chan")
		a.set(ins, Val{T: loc})
	case *ssa.Lookup:
		a.lookup(st, ins)
	case *ssa.MapUpdate:
		a.mapUpdate(st, ins)
	case *ssa.Range:
		a.rangeInit(st, ins)
	case *ssa.Next:
		a.rangeNext(st, ins)
	case *ssa.Call:
		a.call(st, ins, ins.Common(), ins.Pos())
	case *ssa.Defer:
		a.defers = append(a.defers, ins)
	case *ssa.RunDefers:
		for i := len(a.defers) - 1; i >= 0; i-- {
			d := a.defers[i]
			if !d.Block().Dominates(ins.Block()) {
				g.note("conditional defer ignored: " + a.name)
				continue
			}
			a.call(st, nil, d.Common(), d.Pos())
		}
	case *ssa.Go:
		g.note("go statement ignored (goroutine body not verified): " + a.name)
	case *ssa.Send:
		g.note("channel send ignored: " + a.name)
	case *ssa.Select:
		g.note("select treated as havoc: " + a.name)
		a.set(ins, a.havocValue(st, ins.Type(), "sel"))
	case *ssa.SliceToArrayPointer:
		x := a.val(st, ins.X)
		a.set(ins, Val{T: elemLoc(sArr(x.T), sOff(x.T))})
		g.note("slice-to-array-pointer modelled loosely")
	default:
		g.note(fmt.Sprintf("unsupported instruction %T in %s", ins, a.name))
		if v, ok := ins.(ssa.Value); ok {
			a.set(v, a.havocValue(st, v.Type(), "unk"))
		}
	}
}

// asTerm returns a plain term for val of type t (function values become opaque).
func (a *Activation) asTerm(st *State, v Val, t types.Type) Term {
	if v.T.S != "" {
		return v.T
	}
	if v.Cell != nil {
		a.g.note("address of register cell escapes")
		return a.g.fresh("celladdr", SLoc)
	}
	return a.g.fresh("opaque", a.g.sortOf(t))
}

func (a *Activation) havocValue(st *State, t types.Type, prefix string) Val {
	g := a.g
	if tup, ok := t.(*types.Tuple); ok {
		var out Val
		for i := 0; i < tup.Len(); i++ {
			out.Tuple = append(out.Tuple, a.havocValue(st, tup.At(i).Type(), prefix))
		}
		return out
	}
	v := g.fresh(prefix, g.sortOf(t))
	g.closed(st, v, t)
	return Val{T: v}
}

func (a *Activation) zeroInit(st *State, loc Term, t types.Type) {
	g := a.g
	switch u := t.Underlying().(type) {
	case *types.Struct:
		for i := 0; i < u.NumFields(); i++ {
			a.zeroInit(st, g.fldLoc(loc, t, i), u.Field(i).Type())
		}
	case *types.Array:
		if u.Len() <= 64 {
			for i := int64(0); i < u.Len(); i++ {
				a.zeroInit(st, elemLoc(loc, bv64(uint64(i))), u.Elem())
			}
		} else {
			a.zeroFill(st, loc, u.Elem())
		}
	default:
		g.store(st, loc, t, g.zero(t))
	}
}

// zeroFill assumes every element location under the fresh array object is zero.
func (a *Activation) zeroFill(st *State, arr Term, elemT types.Type) {
	g := a.g
	m := map[string]bool{}
	g.leafSorts(elemT, m)
	for s := range m {
		h := g.heap(st, s)
		hn := g.fresh("Hz", h.Sort)
		g.assertLine(eq(hn, h), hn)
		zero := zeroOfSort(g, s)
		g.quantified = true
		g.assertLine(T(SBool, fmt.Sprintf("(forall ((l Loc)) (! (=> (= (root l) (root %s)) (= (select %s l) %s)) :pattern ((select %s l))))", arr.S, hn.S, zero.S, hn.S)), hn)
		st.heaps[s] = hn
	}
}

func zeroOfSort(g *Gen, s string) Term {
	if n, ok := isBV(s); ok {
		return bvConst(n, 0)
	}
	switch s {
	case SBool:
		return tFalse
	case SLoc:
		return nilLoc
	case SSlice:
		return nilSlice
	case SIface:
		return nilIface
	case SFn:
		return T(SFn, "nil_fn")
	case SF64:
		g.declareConst("f64_zero", SF64)
		return T(SF64, "f64_zero")
	}
	return T(s, "?")
}

func (a *Activation) nilCheck(st *State, loc Term, pos token.Pos) {
	if a.safetyOn("nil") {
		a.g.oblige(st, a.name, "nil", fmt.Sprint(a.ord("nil")), not(eq(loc, nilLoc)), pos)
	}
	a.g.assume(st, not(eq(loc, nilLoc)))
}

func (a *Activation) unop(st *State, ins *ssa.UnOp) {
	g := a.g
	x := a.val(st, ins.X)
	switch ins.Op {
	case token.MUL:
		if x.Cell != nil {
			a.set(ins, st.cells[*x.Cell])
			return
		}
		if gl, ok := ins.X.(*ssa.Global); ok {
			if types.Identical(ins.Type(), types.Universe.Lookup("error").Type()) {
				g.globalLoc(gl)
				s := "errc_" + mangle(gl.Pkg.Pkg.Path()+"."+gl.Name())
				a.set(ins, Val{T: T(SIface, s)})
				g.trusted["package-level error variables are initialised to distinct non-nil values and never reassigned"] = true
				return
			}
		}
		a.nilCheck(st, x.T, ins.Pos())
		v := g.load(st, x.T, ins.Type())
		v = g.define("ld", v)
		g.closed(st, v, ins.Type())
		out := Val{T: v}
		if c, ok := g.cloTab[v.S]; ok {
			out.Clo = c
		}
		a.set(ins, out)
	case token.NOT:
		a.set(ins, Val{T: not(x.T)})
	case token.SUB:
		if _, ok := isBV(x.T.Sort); ok {
			a.set(ins, Val{T: app(x.T.Sort, "bvneg", x.T)})
		} else {
			a.set(ins, Val{T: g.fresh("fneg", x.T.Sort)})
		}
	case token.XOR:
		a.set(ins, Val{T: app(x.T.Sort, "bvnot", x.T)})
	case token.ARROW:
		g.note("channel receive treated as havoc: " + a.name)
		a.set(ins, a.havocValue(st, ins.Type(), "recv"))
	default:
		g.note("unsupported unop " + ins.Op.String())
		a.set(ins, a.havocValue(st, ins.Type(), "unop"))
	}
}

func (a *Activation) binop(st *State, op token.Token, x, y Term, xt, yt types.Type, pos token.Pos) Term {
	g := a.g
	if _, ok := isBV(x.Sort); ok {
		signed := isSigned(xt)
		switch op {
		case token.ADD:
			return bvop("bvadd", x, y)
		case token.SUB:
			return bvop("bvsub", x, y)
		case token.MUL:
			return bvop("bvmul", x, y)
		case token.QUO, token.REM:
			if a.safetyOn("div") {
				g.oblige(st, a.name, "div", fmt.Sprint(a.ord("div")), not(eq(y, bvConst(bitsOf(y), 0))), pos)
			}
			g.assume(st, not(eq(y, bvConst(bitsOf(y), 0))))
			if op == token.QUO {
				if signed {
					return g.divConst("bvsdiv", x, y)
				}
				return g.divConst("bvudiv", x, y)
			}
			if signed {
				return g.divConst("bvsrem", x, y)
			}
			return g.divConst("bvurem", x, y)
		case token.AND:
			return bvop("bvand", x, y)
		case token.OR:
			return bvop("bvor", x, y)
		case token.XOR:
			return bvop("bvxor", x, y)
		case token.AND_NOT:
			return bvop("bvand", x, app(y.Sort, "bvnot", y))
		case token.SHL, token.SHR:
			// shift count: y may have different width; Go semantics: count >= width gives 0 / sign fill
			nx := bitsOf(x)
			ny := bitsOf(y)
			var cnt Term
			if ny == nx {
				cnt = y
			} else if ny < nx {
				cnt = zext(y, nx)
			} else {
				// saturate
				big := bvcmp("bvuge", y, bvConst(ny, uint64(nx)))
				cnt = ite(big, bvConst(nx, uint64(nx)), extract(y, nx-1, 0))
			}
			if isSigned(yt) {
				if a.safetyOn("shift") {
					g.oblige(st, a.name, "shift", fmt.Sprint(a.ord("shift")), bvcmp("bvsge", y, bvConst(ny, 0)), pos)
				}
			}
			if op == token.SHL {
				return bvop("bvshl", x, cnt)
			}
			if signed {
				return bvop("bvashr", x, cnt)
			}
			return bvop("bvlshr", x, cnt)
		case token.EQL:
			return eq(x, y)
		case token.NEQ:
			return not(eq(x, y))
		case token.LSS:
			if signed {
				return bvcmp("bvslt", x, y)
			}
			return bvcmp("bvult", x, y)
		case token.LEQ:
			if signed {
				return bvcmp("bvsle", x, y)
			}
			return bvcmp("bvule", x, y)
		case token.GTR:
			if signed {
				return bvcmp("bvsgt", x, y)
			}
			return bvcmp("bvugt", x, y)
		case token.GEQ:
			if signed {
				return bvcmp("bvsge", x, y)
			}
			return bvcmp("bvuge", x, y)
		}
	}
	switch x.Sort {
	case SBool:
		switch op {
		case token.EQL:
			return eq(x, y)
		case token.NEQ:
			return not(eq(x, y))
		case token.AND, token.LAND:
			return and(x, y)
		case token.OR, token.LOR:
			return or(x, y)
		}
	case SSlice:
		// strings
		if b, ok := xt.Underlying().(*types.Basic); ok && b.Info()&types.IsString != 0 {
			switch op {
			case token.EQL:
				return a.strEq(st, x, y)
			case token.NEQ:
				return not(a.strEq(st, x, y))
			case token.ADD:
				return a.strConcat(st, x, y)
			case token.LSS, token.LEQ, token.GTR, token.GEQ:
				c := a.bytesCompare(st, x, y)
				z := bvConst(64, 0)
				switch op {
				case token.LSS:
					return bvcmp("bvslt", c, z)
				case token.LEQ:
					return bvcmp("bvsle", c, z)
				case token.GTR:
					return bvcmp("bvsgt", c, z)
				default:
					return bvcmp("bvsge", c, z)
				}
			}
		}
		// slice compared with nil
		switch op {
		case token.EQL:
			return eq(sArr(x), sArr(y))
		case token.NEQ:
			return not(eq(sArr(x), sArr(y)))
		}
	case SLoc, SIface, SFn:
		switch op {
		case token.EQL:
			return eq(x, y)
		case token.NEQ:
			return not(eq(x, y))
		}
	case SF64:
		g.note("floating point operation uninterpreted")
		if op == token.EQL || op == token.NEQ || op == token.LSS || op == token.LEQ || op == token.GTR || op == token.GEQ {
			return g.fresh("fcmp", SBool)
		}
		return g.fresh("fop", SF64)
	}
	// structs / arrays equality
	if op == token.EQL {
		return eq(x, y)
	}
	if op == token.NEQ {
		return not(eq(x, y))
	}
	g.note("unsupported binop " + op.String() + " on " + x.Sort)
	return g.fresh("binop", x.Sort)
}

func bitsOf(t Term) int {
	n, _ := isBV(t.Sort)
	return n
}

func (a *Activation) convert(st *State, x Term, from, to types.Type, pos token.Pos) Term {
	g := a.g
	fs, ts := g.sortOf(from), g.sortOf(to)
	fb, fok := isBV(fs)
	tb, tok := isBV(ts)
	switch {
	case fok && tok:
		if tb <= fb {
			return zext(x, tb) // extract
		}
		if isSigned(from) {
			return sext(x, tb)
		}
		return zext(x, tb)
	case fs == SSlice && ts == SSlice:
		_, fromStr := from.Underlying().(*types.Basic)
		_, toStr := to.Underlying().(*types.Basic)
		if fromStr == toStr {
			return x
		}
		// string <-> []byte: fresh copy
		return a.copyBytes(st, x, toStr)
	case fok && ts == SSlice:
		// string(rune)
		g.note("string(rune) conversion unconstrained")
		return a.havocValue(st, to, "strconv").T
	case fok && ts == SF64, fs == SF64 && tok, fs == SF64 && ts == SF64:
		g.note("float conversion uninterpreted")
		return g.fresh("fconv", ts)
	case fs == ts:
		return x
	}
	g.note("unsupported conversion " + from.String() + " to " + to.String())
	return g.fresh("conv", ts)
}

// copyBytes returns a fresh array with the same content as x.
func (a *Activation) copyBytes(st *State, x Term, toString bool) Term {
	g := a.g
	arr := g.newObject(st, "bytescopy")
	n := sLen(x)
	a.allocCheck(st, n, token.NoPos)
	res := mkSlice(arr, bv64(0), n, n)
	a.memcpy(st, bvSort(8), arr, bv64(0), sArr(x), sOff(x), n)
	return ite(eq(n, bv64(0)), nilSliceOrEmpty(toString, arr), res)
}

func nilSliceOrEmpty(toString bool, arr Term) Term {
	return mkSlice(arr, bv64(0), bv64(0), bv64(0))
}

// memcpy: heap'[elem(dst, doff+i)] = heap[elem(src, soff+i)] for 0<=i<n, everything else unchanged.
func (a *Activation) memcpy(st *State, sort string, dst, doff, src, soff, n Term) {
	g := a.g
	h := g.heap(st, sort)
	hold := g.fresh("Hc0", h.Sort)
	g.assertLine(eq(hold, h), hold)
	hn := g.fresh("Hc", h.Sort)
	g.quantified = true
	dstN := g.define("mcd", dst)
	doffN := g.define("mco", doff)
	srcN := g.define("mcs", src)
	soffN := g.define("mcf", soff)
	nN := g.define("mcn", n)
	// (1) index-wise copy (terms keep the shape elem(a, off+i), which triggers of user
	//     invariants match); (2) frame: every other location is unchanged
	di := bvop("bvadd", doffN, T(bvSort(64), "i"))
	si := bvop("bvadd", soffN, T(bvSort(64), "i"))
	g.assertLine(T(SBool, fmt.Sprintf(
		"(forall ((i (_ BitVec 64))) (! (=> (bvult i %s) (= (select %s (elem %s %s)) (select %s (elem %s %s)))) :pattern ((select %s (elem %s %s)))))",
		nN.S, hn.S, dstN.S, di.S, hold.S, srcN.S, si.S, hn.S, dstN.S, di.S)), hn)
	g.assertLine(T(SBool, fmt.Sprintf(
		"(forall ((l Loc)) (! (= (select %s l) (ite (and (= (kind l) 2) (= (elem_arr l) %s) (bvule %s (elem_idx l)) (bvult (bvsub (elem_idx l) %s) %s)) (select %s (elem %s (bvadd %s (bvsub (elem_idx l) %s)))) (select %s l))) :pattern ((select %s l))))",
		hn.S, dstN.S, doffN.S, doffN.S, nN.S, hold.S, srcN.S, soffN.S, doffN.S, hold.S, hn.S)), hn)
	st.heaps[sort] = hn
	g.recordCopy(hn, h, dstN, -1)
}

func (a *Activation) makeIface(st *State, v Val, t types.Type) Term {
	g := a.g
	// interface value from concrete value: fresh non-nil iface with type tag and payload
	tid := g.typeID(t)
	x := g.fresh("ifc", SIface)
	srt := g.sortOf(t)
	payload := "iface_val_" + mangle(srt)
	g.declareFun(payload, []string{SIface}, srt)
	vt := a.asTerm(st, v, t)
	facts := []Term{not(eq(x, nilIface)), eq(app("Int", "iface_type", x), T("Int", fmt.Sprint(tid))), eq(app(srt, payload, x), vt)}
	if srt == SLoc {
		facts = append(facts, eq(app(SLoc, "iface_loc", x), vt))
	}
	g.assertLine(and(facts...), x)
	return x
}

var typeIDs = map[string]int{}

func (g *Gen) typeID(t types.Type) int {
	k := types.TypeString(t, nil)
	if id, ok := typeIDs[k]; ok {
		return id
	}
	id := len(typeIDs) + 1
	typeIDs[k] = id
	return id
}

func (a *Activation) typeAssert(st *State, ins *ssa.TypeAssert) {
	g := a.g
	x := a.val(st, ins.X)
	if _, isIface := ins.AssertedType.Underlying().(*types.Interface); isIface {
		// interface-to-interface assertion: ok is unknown but implies non-nil
		ok := g.fresh("taok", SBool)
		g.assertLine(implies(ok, not(eq(x.T, nilIface))), ok)
		if ins.CommaOk {
			a.set(ins, Val{Tuple: []Val{{T: ite(ok, x.T, nilIface)}, {T: ok}}})
		} else {
			if a.safetyOn("typeassert") {
				g.oblige(st, a.name, "typeassert", fmt.Sprint(a.ord("typeassert")), ok, ins.Pos())
			}
			g.assume(st, ok)
			a.set(ins, Val{T: x.T})
		}
		return
	}
	tid := g.typeID(ins.AssertedType)
	srt := g.sortOf(ins.AssertedType)
	payload := "iface_val_" + mangle(srt)
	g.declareFun(payload, []string{SIface}, srt)
	ok := and(not(eq(x.T, nilIface)), eq(app("Int", "iface_type", x.T), T("Int", fmt.Sprint(tid))))
	v := app(srt, payload, x.T)
	if srt == SLoc {
		// pointer payload: the same location iface_loc names (ghost state keyed by the
		// dynamic value, e.g. avail(r), follows the assertion)
		v = app(SLoc, "iface_loc", x.T)
	}
	if ins.CommaOk {
		val := ite(ok, v, g.zero(ins.AssertedType))
		a.set(ins, Val{Tuple: []Val{{T: val}, {T: ok}}})
		return
	}
	if a.safetyOn("typeassert") {
		g.oblige(st, a.name, "typeassert", fmt.Sprint(a.ord("typeassert")), ok, ins.Pos())
	}
	g.assume(st, ok)
	g.closed(st, v, ins.AssertedType)
	a.set(ins, Val{T: v})
}

func (a *Activation) indexAddr(st *State, ins *ssa.IndexAddr) {
	g := a.g
	x := a.val(st, ins.X)
	idx := a.intTo64(a.val(st, ins.Index).T, ins.Index.Type())
	switch u := ins.X.Type().Underlying().(type) {
	case *types.Slice:
		a.boundCheck(st, "idx", idxOK(idx, sLen(x.T)), ins.Pos())
		a.set(ins, Val{T: elemLoc(sArr(x.T), bvop("bvadd", sOff(x.T), idx))})
	case *types.Pointer:
		arr := u.Elem().Underlying().(*types.Array)
		a.boundCheck(st, "idx", idxOK(idx, bv64(uint64(arr.Len()))), ins.Pos())
		a.set(ins, Val{T: elemLoc(x.T, idx)})
	default:
		g.note("indexaddr on unsupported type")
		a.set(ins, Val{T: g.fresh("ia", SLoc)})
	}
}

// idxOK: 0 <= i < n in signed form (lengths are non-negative ints, so this equals the
// unsigned test i <u n and matches the signed comparisons of the source code).
func idxOK(i, n Term) Term {
	return and(bvcmp("bvsle", bv64(0), i), bvcmp("bvslt", i, n))
}

func (a *Activation) intTo64(x Term, t types.Type) Term {
	n := bitsOf(x)
	if n == 64 {
		return x
	}
	if isSigned(t) {
		return sext(x, 64)
	}
	return zext(x, 64)
}

func (a *Activation) boundCheck(st *State, kind string, ok Term, pos token.Pos) {
	if a.safetyOn(kind) {
		a.g.oblige(st, a.name, kind, fmt.Sprint(a.ord(kind)), ok, pos)
	}
	a.g.assume(st, ok)
}

func (a *Activation) index(st *State, ins *ssa.Index) {
	g := a.g
	x := a.val(st, ins.X)
	idx := a.intTo64(a.val(st, ins.Index).T, ins.Index.Type())
	switch u := ins.X.Type().Underlying().(type) {
	case *types.Basic: // string
		a.boundCheck(st, "idx", idxOK(idx, sLen(x.T)), ins.Pos())
		a.set(ins, Val{T: sel(g.heap(st, bvSort(8)), elemLoc(sArr(x.T), bvop("bvadd", sOff(x.T), idx)))})
	case *types.Array:
		a.boundCheck(st, "idx", idxOK(idx, bv64(uint64(u.Len()))), ins.Pos())
		a.set(ins, Val{T: sel(x.T, idx)})
	default:
		a.set(ins, a.havocValue(st, ins.Type(), "index"))
	}
}

func (a *Activation) slice(st *State, ins *ssa.Slice) {
	g := a.g
	x := a.val(st, ins.X)
	var arr, off, ln, cp Term
	isString := false
	switch u := ins.X.Type().Underlying().(type) {
	case *types.Slice:
		arr, off, ln, cp = sArr(x.T), sOff(x.T), sLen(x.T), sCap(x.T)
	case *types.Basic:
		arr, off, ln, cp = sArr(x.T), sOff(x.T), sLen(x.T), sLen(x.T)
		isString = true
	case *types.Pointer:
		n := uint64(u.Elem().Underlying().(*types.Array).Len())
		arr, off, ln, cp = x.T, bv64(0), bv64(n), bv64(n)
	default:
		g.note("slice of unsupported type")
		a.set(ins, a.havocValue(st, ins.Type(), "slc"))
		return
	}
	lo := bv64(0)
	if ins.Low != nil {
		lo = a.intTo64(a.val(st, ins.Low).T, ins.Low.Type())
	}
	hi := ln
	if ins.High != nil {
		hi = a.intTo64(a.val(st, ins.High).T, ins.High.Type())
	}
	mx := cp
	if ins.Max != nil {
		mx = a.intTo64(a.val(st, ins.Max).T, ins.Max.Type())
	}
	limit := cp
	if isString {
		limit = ln
	}
	var ok Term
	if ins.Max != nil {
		ok = and(bvcmp("bvsle", bv64(0), lo), bvcmp("bvsle", lo, hi), bvcmp("bvsle", hi, mx), bvcmp("bvsle", mx, limit))
	} else {
		ok = and(bvcmp("bvsle", bv64(0), lo), bvcmp("bvsle", lo, hi), bvcmp("bvsle", hi, limit))
	}
	a.boundCheck(st, "slice", ok, ins.Pos())
	newLen := bvop("bvsub", hi, lo)
	newCap := bvop("bvsub", mx, lo)
	if isString {
		newCap = newLen
	}
	res := mkSlice(arr, bvop("bvadd", off, lo), newLen, newCap)
	a.set(ins, Val{T: g.define("slc", res)})
}

func (a *Activation) makeSlice(st *State, ins *ssa.MakeSlice) {
	g := a.g
	ln := a.intTo64(a.val(st, ins.Len).T, ins.Len.Type())
	cp := a.intTo64(a.val(st, ins.Cap).T, ins.Cap.Type())
	elemT := ins.Type().Underlying().(*types.Slice).Elem()
	ok := and(bvcmp("bvsle", bv64(0), ln), bvcmp("bvsle", ln, cp), bvcmp("bvule", cp, bv64(1<<46)))
	a.boundCheck(st, "make", ok, ins.Pos())
	a.allocCheck(st, cp, ins.Pos())
	arr := g.newObject(st, "make")
	a.zeroFill(st, arr, elemT)
	a.set(ins, Val{T: mkSlice(arr, bv64(0), ln, cp)})
}

// allocCheck: for decoders, allocation size must be bounded by 64KiB + 64*input.
func (a *Activation) allocCheck(st *State, n Term, pos token.Pos) {
	g := a.g
	if g.allocBound == nil || !a.safetyOn("alloc") {
		return
	}
	lim := bvop("bvadd", bv64(65536), bvop("bvmul", bv64(64), g.allocBound.input))
	g.oblige(st, a.name, "alloc", fmt.Sprint(a.ord("alloc")), bvcmp("bvule", n, lim), pos)
}

// frameCheck: a heap write in a function with a modifies clause must hit a listed
// location or an object allocated during the call.
func (a *Activation) frameCheck(st *State, loc Term, pos token.Pos) {
	// implemented in contracts.go (needs the spec context)
	a.frameObligation(st, loc, pos)
}
