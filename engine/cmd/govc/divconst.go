package main

import "fmt"

// divConst encodes x op c (op one of bvsdiv, bvudiv, bvsrem, bvurem) for a CONSTANT
// divisor c that is not a power of two as the application of a function symbol that is
// uninterpreted in the light proof attempt and defined (per application, heavy line) as
// the SMT operator in the full attempt. Two quotients of provably equal dividends are
// then equal by congruence, without the solver bit-blasting two 64-bit dividers - the
// usual shape when a contract restates "the second of a millisecond deadline".
// Redundant, valid range facts about the quotient of a non-negative dividend are kept in
// the light attempt. Under a quantifier binder (noDefine) the plain operator is used.
func (g *Gen) divConst(op string, x, y Term) Term {
	c, ok := constBV(y)
	if !ok || c < 3 || c&(c-1) == 0 || g.noDefine > 0 {
		return bvop(op, x, y)
	}
	bits := bitsOf(x)
	if bits > 64 || c >= uint64(1)<<(uint(bits)-1) {
		return bvop(op, x, y)
	}
	name := fmt.Sprintf("%s_w%d_c%d", op, bits, c)
	g.declareFun(name, []string{x.Sort}, x.Sort)
	t := app(x.Sort, name, x)
	if g.divSeen == nil {
		g.divSeen = map[string]bool{}
	}
	key := name + "|" + x.S
	if g.divSeen[key] {
		return t
	}
	g.divSeen[key] = true
	g.lines = append(g.lines, Line{Text: "(assert " + eq(t, bvop(op, x, y)).S + ")", Owners: []string{name}, Heavy: true})
	g.hasHeavy = true
	zero := bvConst(bits, 0)
	var fact Term
	switch op {
	case "bvudiv":
		fact = bvcmp("bvule", t, x)
	case "bvsdiv":
		fact = implies(bvcmp("bvsge", x, zero), and(bvcmp("bvsge", t, zero), bvcmp("bvsle", t, x)))
	case "bvurem":
		fact = bvcmp("bvult", t, y)
	case "bvsrem":
		fact = implies(bvcmp("bvsge", x, zero), and(bvcmp("bvsge", t, zero), bvcmp("bvslt", t, y)))
	}
	g.lines = append(g.lines, Line{Text: "(assert " + fact.S + ")", Owners: []string{name}})
	return t
}
