package main

import (
	"fmt"
	"go/types"
	"os"
	"path/filepath"
	"strings"
)

const maxModelBytes = 48

// modelTermsFor lists the SMT terms needed to rebuild a Go value of type t from a model.
func modelTermsFor(g *Gen, v Term, t types.Type, depth int) []string {
	if depth > 3 {
		return nil
	}
	switch u := t.Underlying().(type) {
	case *types.Basic:
		if u.Info()&types.IsString != 0 {
			return bytesTerms(g, v)
		}
		if u.Info()&(types.IsInteger|types.IsBoolean) != 0 {
			return []string{v.S}
		}
	case *types.Slice:
		if b, ok := u.Elem().Underlying().(*types.Basic); ok && b.Kind() == types.Uint8 {
			return bytesTerms(g, v)
		}
		out := []string{sLen(v).S, eq(sArr(v), nilLoc).S}
		for i := 0; i < 3; i++ {
			loc := elemLoc(sArr(v), bvop("bvadd", sOff(v), bv64(uint64(i))))
			out = append(out, modelTermsAt(g, loc, u.Elem(), depth+1)...)
		}
		return out
	case *types.Struct:
		si := g.structInfoOf(t)
		var out []string
		for i := 0; i < u.NumFields(); i++ {
			out = append(out, modelTermsFor(g, app(si.fsorts[i], si.accs[i], v), u.Field(i).Type(), depth+1)...)
		}
		return out
	case *types.Pointer:
		out := []string{eq(v, nilLoc).S}
		if _, ok := u.Elem().Underlying().(*types.Struct); ok {
			out = append(out, modelTermsAt(g, v, u.Elem(), depth+1)...)
		} else if b, ok := u.Elem().Underlying().(*types.Basic); ok && b.Info()&(types.IsInteger|types.IsBoolean) != 0 {
			out = append(out, modelTermsAt(g, v, u.Elem(), depth+1)...)
		}
		return out
	}
	return nil
}

// modelTermsAt: value of type t stored at loc in the initial heap.
func modelTermsAt(g *Gen, loc Term, t types.Type, depth int) []string {
	if depth > 3 {
		return nil
	}
	switch u := t.Underlying().(type) {
	case *types.Struct:
		var out []string
		for i := 0; i < u.NumFields(); i++ {
			out = append(out, modelTermsAt(g, g.fldLoc(loc, t, i), u.Field(i).Type(), depth+1)...)
		}
		return out
	case *types.Array:
		return nil
	}
	s := g.sortOf(t)
	h, ok := g.heapInit[s]
	if !ok {
		return nil
	}
	return modelTermsFor(g, sel(h, loc), t, depth)
}

func bytesTerms(g *Gen, v Term) []string {
	out := []string{sLen(v).S, eq(sArr(v), nilLoc).S}
	h, ok := g.heapInit[bvSort(8)]
	if !ok {
		return out
	}
	for i := 0; i < maxModelBytes; i++ {
		out = append(out, sel(h, elemLoc(sArr(v), bvop("bvadd", sOff(v), bv64(uint64(i))))).S)
	}
	return out
}

func parseBVValue(s string) (uint64, bool) {
	s = strings.TrimSpace(s)
	var v uint64
	if strings.HasPrefix(s, "#x") {
		if len(s) > 18 {
			return 0, false
		}
		if _, err := fmt.Sscanf(s[2:], "%x", &v); err == nil {
			return v, true
		}
	}
	if strings.HasPrefix(s, "#b") {
		for _, c := range s[2:] {
			v = v<<1 | uint64(c-'0')
		}
		return v, true
	}
	if strings.HasPrefix(s, "(_ bv") {
		var n int
		if _, err := fmt.Sscanf(s, "(_ bv%d %d)", &v, &n); err == nil {
			return v, true
		}
	}
	return 0, false
}

// goLiteral renders the model value of v (type t) as a Go expression. ok=false if unsupported.
func goLiteral(g *Gen, m map[string]string, v Term, t types.Type, qual types.Qualifier, depth int) (string, bool) {
	if depth > 3 {
		return "", false
	}
	tn := types.TypeString(t, qual)
	switch u := t.Underlying().(type) {
	case *types.Basic:
		if u.Info()&types.IsString != 0 {
			b, ok := bytesLiteral(g, m, v)
			if !ok {
				return "", false
			}
			return tn + "([]byte{" + b + "})", true
		}
		if u.Info()&types.IsBoolean != 0 {
			val, ok := m[v.S]
			if !ok {
				return "false", true
			}
			return tn + "(" + val + ")", true
		}
		if u.Info()&types.IsInteger != 0 {
			val, ok := m[v.S]
			if !ok {
				return tn + "(0)", true
			}
			x, ok := parseBVValue(val)
			if !ok {
				return "", false
			}
			bits := intBits(u)
			if isSigned(t) {
				sx := int64(x)
				if bits < 64 && x&(1<<uint(bits-1)) != 0 {
					sx = int64(x) - (1 << uint(bits))
				}
				if sx == -9223372036854775808 {
					return tn + "(-9223372036854775808)", true
				}
				return fmt.Sprintf("%s(%d)", tn, sx), true
			}
			return fmt.Sprintf("%s(%d)", tn, x), true
		}
	case *types.Slice:
		if b, ok := u.Elem().Underlying().(*types.Basic); ok && b.Kind() == types.Uint8 {
			if m[eq(sArr(v), nilLoc).S] == "true" {
				return tn + "(nil)", true
			}
			bs, ok := bytesLiteral(g, m, v)
			if !ok {
				return "", false
			}
			return tn + "{" + bs + "}", true
		}
		if m[eq(sArr(v), nilLoc).S] == "true" {
			return tn + "(nil)", true
		}
		n, ok := parseBVValue(m[sLen(v).S])
		if !ok || n > 3 {
			return "", false
		}
		var elems []string
		for i := uint64(0); i < n; i++ {
			loc := elemLoc(sArr(v), bvop("bvadd", sOff(v), bv64(i)))
			e, ok := goLiteralAt(g, m, loc, u.Elem(), qual, depth+1)
			if !ok {
				return "", false
			}
			elems = append(elems, e)
		}
		return tn + "{" + strings.Join(elems, ", ") + "}", true
	case *types.Struct:
		si := g.structInfoOf(t)
		var fs []string
		for i := 0; i < u.NumFields(); i++ {
			if !u.Field(i).Exported() && u.Field(i).Pkg() != nil && qual != nil && qual(u.Field(i).Pkg()) != "" {
				continue
			}
			if strings.HasPrefix(u.Field(i).Name(), "XXX_") || u.Field(i).Name() == "state" || u.Field(i).Name() == "sizeCache" || u.Field(i).Name() == "unknownFields" {
				continue
			}
			e, ok := goLiteral(g, m, app(si.fsorts[i], si.accs[i], v), u.Field(i).Type(), qual, depth+1)
			if !ok {
				continue
			}
			fs = append(fs, u.Field(i).Name()+": "+e)
		}
		return tn + "{" + strings.Join(fs, ", ") + "}", true
	case *types.Pointer:
		if m[eq(v, nilLoc).S] == "true" {
			return "(" + tn + ")(nil)", true
		}
		e, ok := goLiteralAt(g, m, v, u.Elem(), qual, depth+1)
		if !ok {
			return "", false
		}
		if _, isStruct := u.Elem().Underlying().(*types.Struct); isStruct {
			return "&" + e, true
		}
		return fmt.Sprintf("func() %s { x := %s; return &x }()", tn, e), true
	}
	return "", false
}

func goLiteralAt(g *Gen, m map[string]string, loc Term, t types.Type, qual types.Qualifier, depth int) (string, bool) {
	tn := types.TypeString(t, qual)
	switch u := t.Underlying().(type) {
	case *types.Struct:
		var fs []string
		if nt, ok := t.(*types.Named); ok && nt.Obj().Pkg() != nil && !strings.HasPrefix(nt.Obj().Pkg().Path(), modPath) {
			for i := 0; i < u.NumFields(); i++ {
				if !u.Field(i).Exported() {
					return "", false // opaque library object (bufio.Reader, sync.Mutex, ...): cannot be built from a model
				}
			}
		}
		for i := 0; i < u.NumFields(); i++ {
			name := u.Field(i).Name()
			if name == "state" || name == "sizeCache" || name == "unknownFields" {
				continue
			}
			if !u.Field(i).Exported() && u.Field(i).Pkg() != nil && qual != nil && qual(u.Field(i).Pkg()) != "" {
				continue
			}
			e, ok := goLiteralAt(g, m, g.fldLoc(loc, t, i), u.Field(i).Type(), qual, depth+1)
			if !ok {
				continue
			}
			fs = append(fs, name+": "+e)
		}
		return tn + "{" + strings.Join(fs, ", ") + "}", true
	case *types.Array:
		return "", false
	}
	s := g.sortOf(t)
	h, ok := g.heapInit[s]
	if !ok {
		// heap never read: any value works; use zero
		return zeroLiteral(t, qual), true
	}
	return goLiteral(g, m, sel(h, loc), t, qual, depth)
}

func zeroLiteral(t types.Type, qual types.Qualifier) string {
	tn := types.TypeString(t, qual)
	switch u := t.Underlying().(type) {
	case *types.Basic:
		if u.Info()&types.IsString != 0 {
			return tn + `("")`
		}
		if u.Info()&types.IsBoolean != 0 {
			return tn + "(false)"
		}
		return tn + "(0)"
	case *types.Struct:
		return tn + "{}"
	}
	return "(" + tn + ")(nil)"
}

func bytesLiteral(g *Gen, m map[string]string, v Term) (string, bool) {
	n, ok := parseBVValue(m[sLen(v).S])
	if !ok {
		return "", false
	}
	if n > maxModelBytes {
		return "", false
	}
	h, hok := g.heapInit[bvSort(8)]
	var bs []string
	for i := uint64(0); i < n; i++ {
		b := uint64(0)
		if hok {
			if val, ok := m[sel(h, elemLoc(sArr(v), bvop("bvadd", sOff(v), bv64(i)))).S]; ok {
				b, _ = parseBVValue(val)
			}
		}
		bs = append(bs, fmt.Sprintf("0x%02x", b))
	}
	return strings.Join(bs, ", "), true
}

// writeReplay writes the replay file for a failed obligation and tries to confirm it
// against the real code. Returns the path and whether the failure was reproduced.
func writeReplay(e *Engine, g *Gen, r *propReport, name string, res *Result, why string) (string, bool) {
	dir := filepath.Join(r.verif, "replays", r.prop)
	os.MkdirAll(dir, 0o755)
	base := strings.NewReplacer("/", "_", " ", "_", "(", "", ")", "", "*", "p", "#", "-", "$", "_").Replace(name)
	path := filepath.Join(dir, base+".txt")
	var b strings.Builder
	fmt.Fprintf(&b, "property: %s\nobligation: %s\nstatus: %s\nsolver: %s\nposition: %s\n", r.prop, name, res.Status, res.Solver, res.Obl.Pos)
	if why != "" {
		fmt.Fprintf(&b, "reason: %s\n", why)
	}
	if res.SmallScope {
		fmt.Fprintf(&b, "note: counterexample found under small-scope size bounds (sound for refutation)\n")
	}
	fmt.Fprintf(&b, "goal: %s\n", truncate(res.Obl.Goal.S, 2000))
	confirmed := false
	if res.Status == "noanswer" && res.Candidate != nil {
		// candidate input from the quantifier-free relaxation: believed only if it replays
		cand := *res
		cand.Model = res.Candidate
		ok, testPath, out := runDirectReplay(e, g, r, name, &cand, dir, base)
		fmt.Fprintf(&b, "note: the solver gave no answer on the full query; a candidate input from its quantifier-free relaxation was tried on the real code\n")
		if testPath != "" {
			fmt.Fprintf(&b, "replay_test: %s\n", testPath)
		}
		fmt.Fprintf(&b, "replay_output:\n%s\n", truncate(out, 4000))
		confirmed = ok
	}
	if res.Status == "refuted" && res.Model != nil {
		ok, testPath, out := runDirectReplay(e, g, r, name, res, dir, base)
		if testPath != "" {
			fmt.Fprintf(&b, "replay_test: %s\n", testPath)
		}
		fmt.Fprintf(&b, "replay_output:\n%s\n", truncate(out, 4000))
		confirmed = ok
	}
	fmt.Fprintf(&b, "confirmed_on_real_code: %v\n", confirmed)
	fmt.Fprintf(&b, "solver_output:\n%s\n", truncate(res.Raw, 6000))
	os.WriteFile(path, []byte(b.String()), 0o644)
	r.replays = append(r.replays, path)
	return path, confirmed
}

func truncate(s string, n int) string {
	if len(s) > n {
		return s[:n] + "…"
	}
	return s
}
