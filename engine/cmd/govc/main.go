package main

import (
	"encoding/json"
	"flag"
	"fmt"
	"os"
	"path/filepath"
	"sort"
	"strings"
	"sync"
	"time"

	"golang.org/x/tools/go/ssa"
)

func main() {
	if len(os.Args) < 2 {
		fmt.Fprintln(os.Stderr, "usage: govc check|dump|list ...")
		os.Exit(2)
	}
	switch os.Args[1] {
	case "check":
		os.Exit(cmdCheck(os.Args[2:]))
	case "list":
		os.Exit(cmdList(os.Args[2:]))
	default:
		fmt.Fprintln(os.Stderr, "unknown command", os.Args[1])
		os.Exit(2)
	}
}

func cmdList(args []string) int {
	fs := flag.NewFlagSet("list", flag.ExitOnError)
	repo := fs.String("repo", "/repo", "repository")
	fs.Parse(args)
	e, err := loadEngine(*repo, []string{"./..."})
	if err != nil {
		fmt.Fprintln(os.Stderr, err)
		return 2
	}
	var keys []string
	for k := range e.specs.funcs {
		keys = append(keys, k)
	}
	sort.Strings(keys)
	for _, k := range keys {
		sp := e.specs.funcs[k]
		_, ok := e.funcs[k]
		fmt.Printf("%s props=%v bound=%v\n", k, sp.Props, ok)
	}
	for _, er := range e.specs.errs {
		fmt.Println("SPEC-ERROR:", er)
	}
	return 0
}

type oblReport struct {
	Name   string `json:"name"`
	Status string `json:"status"`
	Solver string `json:"solver"`
	Ms     int64  `json:"ms"`
	Pos    string `json:"pos,omitempty"`
	Sites  int    `json:"sites"`
}

func cmdCheck(args []string) int {
	fs := flag.NewFlagSet("check", flag.ExitOnError)
	repo := fs.String("repo", "/repo", "repository")
	prop := fs.String("prop", "", "property id")
	tier := fs.String("tier", "quick", "quick|thorough")
	only := fs.String("func", "", "only functions whose key contains this")
	dump := fs.String("dump", "", "keep SMT files in this directory")
	verif := fs.String("verif", "/verif", "verif directory")
	timeout := fs.Int("timeout", 0, "per-obligation timeout (s)")
	verbose := fs.Bool("v", false, "verbose")
	noEvidence := fs.Bool("no-evidence", false, "do not write evidence")
	fs.Parse(args)
	start := time.Now()
	if *prop == "" {
		fmt.Fprintln(os.Stderr, "need -prop")
		return 2
	}
	tmo := 20
	if *tier == "thorough" {
		tmo = 120
		thoroughTier = true
	}
	if *timeout > 0 {
		tmo = *timeout
	}
	e, err := loadEngine(*repo, []string{"./..."})
	if err != nil {
		fmt.Println("UNDECIDED property=" + *prop + " reason=load-failed")
		fmt.Fprintln(os.Stderr, err)
		writeEvidenceLoadFailure(*verif, *prop, *tier, err, time.Since(start).Seconds())
		return 0
	}
	loadS := time.Since(start).Seconds()
	for _, er := range e.specs.errs {
		fmt.Println("SPEC-ERROR:", er)
	}
	dir := *dump
	if dir == "" {
		dir, _ = os.MkdirTemp("", "govc-smt-")
		defer os.RemoveAll(dir)
	} else {
		os.MkdirAll(dir, 0o755)
	}
	// collect work
	var keys []string
	for k, sp := range e.specs.funcs {
		for _, p := range sp.Props {
			if p == *prop && (*only == "" || strings.Contains(k, *only)) {
				keys = append(keys, k)
			}
		}
	}
	sort.Strings(keys)
	known := loadKnownFindings(filepath.Join(*verif, "known_findings.txt"), *prop)
	rep := &propReport{prop: *prop, tier: *tier, known: known, verif: *verif, verbose: *verbose, start: start, loadS: loadS, tmo: tmo}
	type job struct {
		g   *Gen
		key string
	}
	var jobs []job
	for _, k := range keys {
		fn := e.funcs[k]
		sp := e.specs.funcs[k]
		if fn == nil || fn.Blocks == nil {
			rep.undecided = append(rep.undecided, fmt.Sprintf("obligation=%s reason=function-not-found", k))
			continue
		}
		if len(sp.ParseErrs) > 0 {
			rep.undecided = append(rep.undecided, fmt.Sprintf("obligation=%s reason=contract-parse-error", k))
		}
		if sp.Tags["thorough-only"] && *tier != "thorough" {
			rep.deferred = append(rep.deferred, strings.TrimPrefix(k, modPath+"/"))
			continue
		}
		g := safeVerify(e, fn, sp)
		if g == nil {
			rep.undecided = append(rep.undecided, fmt.Sprintf("obligation=%s reason=generator-panic", k))
			continue
		}
		jobs = append(jobs, job{g, k})
	}
	for _, lm := range e.specs.lemmas {
		for _, p := range lm.Props {
			if p == *prop && (*only == "" || strings.Contains(lm.Name, *only)) {
				jobs = append(jobs, job{e.verifyLemma(lm), lm.PkgPath + "::lemma " + lm.Name})
			}
		}
	}
	for _, j := range jobs {
		prepareSolve(j.g)
	}
	allRes := make([][]*Result, len(jobs))
	var jwg sync.WaitGroup
	for i, j := range jobs {
		jwg.Add(1)
		go func(i int, j job) {
			defer jwg.Done()
			t := tmo
			if sp := e.specs.funcs[j.key]; sp != nil && sp.Timeout > t {
				t = sp.Timeout
			}
			allRes[i] = solveAll(j.g, dir, t, 0, fmt.Sprintf("f%d", i))
		}(i, j)
	}
	jwg.Wait()
	// quiet retry: an obligation without an answer is re-tried with the machine to itself
	// (two at a time) and three times the limit before it is reported; solver time under
	// the load of the parallel phase is not evidence about the code
	{
		type retry struct{ ji, oi int }
		var rs []retry
		for ji := range jobs {
			for oi, x := range allRes[ji] {
				if x != nil && !x.Obl.Cover && x.Status == "noanswer" {
					rs = append(rs, retry{ji, oi})
				}
			}
		}
		// (more than a handful of unanswered obligations is a changed function, not solver
		// noise: those are reported as they are)
		if len(rs) > 0 && len(rs) <= 6 {
			sem := make(chan struct{}, 3)
			var rwg sync.WaitGroup
			for _, r := range rs {
				rwg.Add(1)
				sem <- struct{}{}
				go func(r retry) {
					defer rwg.Done()
					defer func() { <-sem }()
					t := tmo
					if sp := e.specs.funcs[jobs[r.ji].key]; sp != nil && sp.Timeout > t {
						t = sp.Timeout
					}
					old := allRes[r.ji][r.oi]
					rt := 3 * t
					if rt > 240 {
						rt = 240
					}
					if rt < t {
						rt = t
					}
					nr := solveOne(jobs[r.ji].g, old.Obl, dir, fmt.Sprintf("r%d_%d", r.ji, r.oi), rt)
					nr.Ms += old.Ms
					if nr.Status != "noanswer" || nr.Candidate != nil {
						allRes[r.ji][r.oi] = nr
					}
				}(r)
			}
			rwg.Wait()
		}
	}
	for i, j := range jobs {
		rep.add(e, j.g, j.key, allRes[i])
	}
	return rep.finish(e, *noEvidence)
}

func safeVerify(e *Engine, fn *ssa.Function, sp *FuncSpec) (g *Gen) {
	defer func() {
		if r := recover(); r != nil {
			fmt.Fprintf(os.Stderr, "generator panic in %s: %v\n", funcKey(fn), r)
			if os.Getenv("GOVC_PANIC") != "" {
				panic(r)
			}
			g = nil
		}
	}()
	return e.verifyFunction(fn, sp)
}

type knownFinding struct {
	prop, obligation, text string
	seen                   bool
}

func loadKnownFindings(path, prop string) []*knownFinding {
	data, err := os.ReadFile(path)
	if err != nil {
		return nil
	}
	var out []*knownFinding
	for _, ln := range strings.Split(string(data), "\n") {
		ln = strings.TrimSpace(ln)
		if !strings.HasPrefix(ln, "finding:") {
			continue
		}
		head, text, _ := strings.Cut(strings.TrimPrefix(ln, "finding:"), "::")
		kf := &knownFinding{text: strings.TrimSpace(text)}
		for _, f := range strings.Fields(head) {
			if v, ok := strings.CutPrefix(f, "property="); ok {
				kf.prop = v
			}
			if v, ok := strings.CutPrefix(f, "obligation="); ok {
				kf.obligation = v
			}
		}
		if kf.prop == prop {
			out = append(out, kf)
		}
	}
	return out
}

type propReport struct {
	prop, tier, verif string
	bounded           []boundedResult
	known             []*knownFinding
	verbose           bool
	start             time.Time
	loadS             float64
	tmo               int
	obls              []oblReport
	undecided         []string
	violations        []string
	knownHit          []string
	funcs             []string
	notes             map[string]int
	trusted           map[string]bool
	stdlib            map[string]bool
	assumed           map[string]bool
	verified          map[string]bool
	solverMs          int64
	nObl, nDis        int
	samples           []map[string]any
	replays           []string
	deferred          []string
}

func (r *propReport) add(e *Engine, g *Gen, key string, res []*Result) {
	if r.notes == nil {
		r.notes = map[string]int{}
		r.trusted = map[string]bool{}
		r.stdlib = map[string]bool{}
		r.assumed = map[string]bool{}
		r.verified = map[string]bool{}
	}
	r.funcs = append(r.funcs, strings.TrimPrefix(key, modPath+"/"))
	r.verified[key] = true
	for k, v := range g.notes {
		r.notes[k] += v
	}
	for k := range g.trusted {
		r.trusted[k] = true
	}
	for k := range g.stdUsed {
		r.stdlib[k] = true
	}
	for k := range g.assumedContracts {
		r.assumed[k] = true
	}
	for _, u := range g.unbound {
		r.undecided = append(r.undecided, fmt.Sprintf("obligation=%s reason=unbound:%s", key, strings.ReplaceAll(u, " ", "_")))
	}
	// aggregate by name
	type agg struct {
		status string
		solver string
		ms     int64
		pos    string
		sites  int
		worst  *Result
	}
	order := []string{}
	m := map[string]*agg{}
	rank := map[string]int{"proved": 0, "cover-ok": 0, "cover-skipped": 0, "cover-unknown": 1, "noanswer": 2, "refuted": 3, "cover-fail": 3, "engine-error": 4}
	for _, x := range res {
		if r.verbose && x.Status != "proved" && !strings.HasPrefix(x.Status, "cover") {
			fmt.Printf("    site: %s %s %s %dms %s\n", x.Obl.Name, x.Status, x.Solver, x.Ms, x.Obl.Pos)
		}
		a, ok := m[x.Obl.Name]
		if !ok {
			a = &agg{status: x.Status, solver: x.Solver, pos: x.Obl.Pos, worst: x}
			m[x.Obl.Name] = a
			order = append(order, x.Obl.Name)
		} else if strings.Contains(x.Obl.Name, "#vacuity") {
			// cover queries: one reachable site suffices
			if x.Status == "cover-ok" || (a.status == "cover-fail" && x.Status == "cover-unknown") {
				a.status, a.solver, a.worst = x.Status, x.Solver, x
			}
		} else if rank[x.Status] > rank[a.status] {
			a.status, a.solver, a.pos, a.worst = x.Status, x.Solver, x.Obl.Pos, x
		}
		a.ms += x.Ms
		a.sites++
		r.solverMs += x.Ms
	}
	for _, name := range order {
		a := m[name]
		r.obls = append(r.obls, oblReport{Name: name, Status: a.status, Solver: a.solver, Ms: a.ms, Pos: a.pos, Sites: a.sites})
		if strings.Contains(name, "#vacuity") {
			if a.status == "cover-fail" {
				r.fail(e, g, name, a.worst, "vacuous: precondition or exit unreachable")
			} else if a.status == "cover-unknown" || a.status == "engine-error" {
				r.undecided = append(r.undecided, fmt.Sprintf("obligation=%s reason=vacuity-check-inconclusive", name))
			}
			continue
		}
		r.nObl++
		switch a.status {
		case "engine-error":
			r.undecided = append(r.undecided, fmt.Sprintf("obligation=%s reason=ill-formed-query:%s", name, strings.ReplaceAll(truncate(strings.SplitN(a.worst.Raw, "\n", 2)[0], 120), " ", "_")))
		case "proved":
			r.nDis++
			if kf := r.findKnown(name); kf != nil {
				kf.seen = true
				fmt.Printf("NOTE: known finding %s now proves\n", name)
			}
		default:
			r.fail(e, g, name, a.worst, "")
		}
		if r.verbose {
			fmt.Printf("  %-70s %-9s %-7s %5dms %s\n", name, a.status, a.solver, a.ms, a.pos)
		}
		if len(r.samples) < 12 {
			r.samples = append(r.samples, map[string]any{"obligation": name, "status": a.status, "solver": a.solver, "ms": a.ms, "pos": a.pos})
		}
	}
}

func (r *propReport) findKnown(name string) *knownFinding {
	for _, k := range r.known {
		if k.obligation == name {
			return k
		}
	}
	return nil
}

func (r *propReport) fail(e *Engine, g *Gen, name string, res *Result, why string) {
	if kf := r.findKnown(name); kf != nil {
		kf.seen = true
		r.knownHit = append(r.knownHit, name)
		fmt.Printf("KNOWN-FINDING: property=%s %s %s\n", r.prop, name, kf.text)
		return
	}
	// replay
	path, confirmed := writeReplay(e, g, r, name, res, why)
	suffix := ""
	if !confirmed {
		suffix = " no-failing-input-found"
	}
	line := fmt.Sprintf("VIOLATION property=%s replay=%s obligation=%s status=%s%s", r.prop, path, name, res.Status, suffix)
	// the brief wants the line to END with no-failing-input-found where applicable
	if !confirmed {
		line = fmt.Sprintf("VIOLATION property=%s replay=%s obligation=%s status=%s no-failing-input-found", r.prop, path, name, res.Status)
	}
	fmt.Println(line)
	r.violations = append(r.violations, name)
}

func (r *propReport) finish(e *Engine, noEvidence bool) int {
	r.reportBounded(e)
	for _, u := range r.undecided {
		fmt.Printf("UNDECIDED property=%s %s\n", r.prop, u)
	}
	wall := time.Since(r.start).Seconds()
	fmt.Printf("SUMMARY property=%s functions=%d obligations=%d discharged=%d known=%d violations=%d undecided=%d solver_s=%.1f wall_s=%.1f\n",
		r.prop, len(r.funcs), r.nObl, r.nDis, len(r.knownHit), len(r.violations), len(r.undecided), float64(r.solverMs)/1000, wall)
	if !noEvidence {
		r.writeEvidence(e, wall)
	}
	if len(r.violations) > 0 {
		return 1
	}
	return 0
}

func sortedKeys[V any](m map[string]V) []string {
	var out []string
	for k := range m {
		out = append(out, k)
	}
	sort.Strings(out)
	return out
}

func (r *propReport) writeEvidence(e *Engine, wall float64) {
	level := "proof"
	expl := ""
	if r.nObl == 0 || r.nDis != r.nObl || len(r.undecided) > 0 {
		level = "other"
		expl = fmt.Sprintf("%d of %d obligations discharged; %d known findings left open; %d undecided (tool limits, reported as UNDECIDED)", r.nDis, r.nObl, len(r.knownHit), len(r.undecided))
	}
	var assumptions []string
	for _, k := range sortedKeys(r.trusted) {
		assumptions = append(assumptions, "trusted: "+k)
	}
	for _, k := range sortedKeys(r.assumed) {
		if !r.verified[k] {
			assumptions = append(assumptions, "contract assumed at call sites, body verified under another property or not at all: "+strings.TrimPrefix(k, modPath+"/"))
		}
	}
	for _, k := range sortedKeys(r.notes) {
		assumptions = append(assumptions, fmt.Sprintf("engine note (x%d): %s", r.notes[k], k))
	}
	assumptions = append(assumptions,
		"GOARCH=amd64: int/uint/uintptr are 64-bit bit-vectors; all integer arithmetic is bit-precise (wrap-around modelled)",
		"slices/strings handed to a verified function have len,cap,offset <= 2^40 and satisfy 0<=len<=cap",
		"go/ssa (x/tools v0.50.0) builds SSA that means what the compiler compiles; govc's SSA-to-SMT semantics is correct (DESIGN.md §3.2)",
		"termination is proved only where a decreases clause exists; data races and interleavings are out of scope")
	for _, b := range r.bounded {
		assumptions = append(assumptions, fmt.Sprintf("BOUNDED stand-in (not a proof, not counted as discharged): %s on package %s, bound: %s, %d cases enumerated on the real code", b.Name, b.Pkg, b.Bound, b.Cases))
	}
	ev := map[string]any{
		"property_id": r.prop,
		"tier":        r.tier,
		"seed":        0,
		"level":       level,
		"wall_s":      wall,
		"violations":  len(r.violations),
		"assumptions": assumptions,
		"coverage": map[string]any{
			"obligations":              r.nObl,
			"discharged":               r.nDis,
			"known_failing":            r.knownHit,
			"undecided":                r.undecided,
			"checker_cmd":              fmt.Sprintf("/verif/bin/govc check -prop %s -tier %s (z3-new 5.1.0 | cvc5 1.0 | z3 4.8.12 raced per obligation, %ds limit)", r.prop, r.tier, r.tmo),
			"trusted_base":             append([]string{"govc VC generator", "golang.org/x/tools/go/ssa v0.50.0", "z3 5.1.0 / cvc5 1.0 / z3 4.8.12"}, sortedKeys(r.stdlib)...),
			"functions_under_contract": r.funcs,
			"deferred_to_thorough_tier": r.deferred,
			"solver_time_s":            float64(r.solverMs) / 1000,
			"load_time_s":              r.loadS,
			"explanation":              expl,
			"samples":                  nonNilSamples(r.samples),
			"per_obligation":           r.obls,
			"replays":                  r.replays,
			"bounded_stand_ins":        r.bounded,
		},
	}
	// a proof pack with a recorded finding reported by one of its bounded stand-ins: the
	// obligations discharge, but the level is 'other' while the finding stays open
	if r.nObl > 0 && level == "proof" {
		open := 0
		for _, b := range r.bounded {
			if !b.Pass && r.findKnown("bounded:"+b.Name) != nil {
				open++
			}
		}
		if open > 0 {
			level = "other"
			ev["level"] = "other"
			expl = fmt.Sprintf("%d of %d obligations discharged; %d recorded known finding(s) reported by bounded stand-ins stay open, so the level is 'other'", r.nDis, r.nObl, open)
			ev["coverage"].(map[string]any)["explanation"] = expl
		}
	}
	// a check that consists of bounded stand-ins only is an exhaustive exploration of a
	// stated finite space, not a proof
	if r.nObl == 0 && len(r.bounded) > 0 {
		cases, nontriv := 0, 0
		var rules []string
		var samples []any
		allPass := true
		knownOpen := 0
		for _, b := range r.bounded {
			if !b.Pass && r.findKnown("bounded:"+b.Name) != nil {
				knownOpen++ // a recorded finding: reported as KNOWN-FINDING, not part of the counts
				continue
			}
			cases += b.Cases
			nontriv += b.Nontrivial
			rules = append(rules, b.Name+": every case within the bound is enumerated and run on the real function ("+b.Bound+"); a case is non-trivial when the test says so (see its BOUNDED-NONTRIVIAL rule)")
			for _, sm := range b.Samples {
				samples = append(samples, sm)
			}
			allPass = allPass && b.Pass
		}
		if allPass && knownOpen > 0 && cases > 0 && len(samples) > 0 {
			cov := ev["coverage"].(map[string]any)
			cov["evaluations"] = cases
			cov["distinct_nontrivial"] = nontriv
			cov["rule"] = strings.Join(rules, "; ")
			cov["samples"] = samples
			cov["explanation"] = fmt.Sprintf("bounded stand-ins only (exhaustive within the stated bounds, NOT a proof); %d recorded known finding(s) stay open, so the level is 'other'", knownOpen)
			level = "other"
			ev["level"] = "other"
			expl = cov["explanation"].(string)
		}
		if allPass && knownOpen == 0 && cases > 0 && nontriv >= 2 && len(samples) > 0 {
			ev["level"] = "exploration"
			cov := ev["coverage"].(map[string]any)
			cov["evaluations"] = cases
			cov["distinct_nontrivial"] = nontriv
			cov["rule"] = strings.Join(rules, "; ")
			cov["samples"] = samples
			cov["exhaustive"] = true
			cov["explanation"] = "bounded stand-in only (exhaustive within the stated bound, NOT a proof): the function's contract does not discharge"
			level = "exploration"
		}
	}
	if level == "other" && expl == "" {
		ev["coverage"].(map[string]any)["explanation"] = "see counts"
	}
	os.MkdirAll(filepath.Join(r.verif, "evidence"), 0o755)
	data, _ := json.MarshalIndent(ev, "", " ")
	os.WriteFile(filepath.Join(r.verif, "evidence", r.prop+".json"), data, 0o644)
}

func writeEvidenceLoadFailure(verif, prop, tier string, err error, wall float64) {
	ev := map[string]any{
		"property_id": prop, "tier": tier, "seed": 0, "level": "other", "wall_s": wall, "violations": 0,
		"coverage": map[string]any{"explanation": "repository failed to load/type-check with -tags=verif; nothing was verified: " + err.Error(), "obligations": 0, "discharged": 0},
	}
	os.MkdirAll(filepath.Join(verif, "evidence"), 0o755)
	data, _ := json.MarshalIndent(ev, "", " ")
	os.WriteFile(filepath.Join(verif, "evidence", prop+".json"), data, 0o644)
}

func nonNilSamples[T any](s []T) []T {
	if s == nil {
		return []T{}
	}
	return s
}
