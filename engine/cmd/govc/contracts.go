package main

import (
	"fmt"
	"go/token"
	"go/types"
	"sort"
	"strings"

	"golang.org/x/tools/go/packages"
	"golang.org/x/tools/go/ssa"
)

type frameRangeT struct{ arr, lo, n Term }

// ---------- locals by name (for invariants) ----------

func (a *Activation) allocsByName(name string) []*ssa.Alloc {
	want := name
	if name == "rangeint_iter" {
		want = "rangeint.iter" // hidden counter of `for range n`
	}
	ordinal := 0
	if i := strings.Index(name, "#"); i > 0 {
		want = name[:i]
		fmt.Sscanf(name[i+1:], "%d", &ordinal)
	}
	var out []*ssa.Alloc
	for _, b := range a.fn.Blocks {
		for _, ins := range b.Instrs {
			if al, ok := ins.(*ssa.Alloc); ok && al.Comment == want {
				out = append(out, al)
			}
		}
	}
	sort.SliceStable(out, func(i, j int) bool { return out[i].Pos() < out[j].Pos() })
	if ordinal > 0 {
		if ordinal <= len(out) {
			return out[ordinal-1 : ordinal]
		}
		return nil
	}
	return out
}

func (a *Activation) hasLocal(name string) bool {
	if _, ok := a.params[name]; ok {
		return true
	}
	return len(a.allocsByName(name)) > 0
}

// localByName returns the current value of a source variable.
func (a *Activation) localByName(st *State, name string) (SVal, bool) {
	g := a.g
	als := a.allocsByName(name)
	for _, al := range als {
		elemT := al.Type().(*types.Pointer).Elem()
		if a.regCell[al] {
			if v, ok := st.cells[cellKey{a.id, al}]; ok {
				return SVal{T: v.T, Ty: elemT}, true
			}
			continue
		}
		if v, ok := a.env[al]; ok {
			loc := v.T
			return SVal{T: g.load(st, loc, elemT), Ty: elemT, Loc: &loc}, true
		}
	}
	// declared later than this program point (e.g. an early return): any value
	if len(als) > 0 {
		elemT := als[0].Type().(*types.Pointer).Elem()
		return SVal{T: g.fresh("undeclared_"+mangleShort(name), g.sortOf(elemT)), Ty: elemT}, true
	}
	// parameter that is never reassigned has no Alloc in some cases
	for _, p := range a.fn.Params {
		if p.Name() == name {
			if v, ok := a.env[p]; ok {
				return SVal{T: v.T, Ty: p.Type()}, true
			}
		}
	}
	// free variables of closures
	for _, fv := range a.fn.FreeVars {
		if fv.Name() == name {
			if v, ok := a.env[fv]; ok {
				elemT := fv.Type().(*types.Pointer).Elem()
				loc := v.T
				if v.Cell != nil {
					if cv, ok := st.cells[*v.Cell]; ok {
						return SVal{T: cv.T, Ty: elemT}, true
					}
				}
				return SVal{T: g.load(st, loc, elemT), Ty: elemT, Loc: &loc}, true
			}
		}
	}
	return SVal{}, false
}

// freeVarByName reads a captured variable of the closure under verification.
func (a *Activation) freeVarByName(st *State, name string) (SVal, bool) {
	g := a.g
	for _, fv := range a.fn.FreeVars {
		if fv.Name() != name {
			continue
		}
		v, ok := a.env[fv]
		if !ok {
			return SVal{}, false
		}
		elemT := fv.Type().(*types.Pointer).Elem()
		if v.Cell != nil {
			if cv, ok := st.cells[*v.Cell]; ok {
				return SVal{T: cv.T, Ty: elemT}, true
			}
			return SVal{}, false
		}
		loc := v.T
		return SVal{T: g.load(st, loc, elemT), Ty: elemT, Loc: &loc, Dyn: true}, true
	}
	return SVal{}, false
}

func (a *Activation) pkg() *packages.Package {
	if a.fn.Pkg == nil {
		return nil
	}
	return a.g.eng.byPath[a.fn.Pkg.Pkg.Path()]
}

// specCtx builds an evaluation context at state st.
func (a *Activation) specCtx(st *State, where string, withLocals bool) *SpecCtx {
	c := &SpecCtx{g: a.g, pkg: a.pkg(), st: st, old: a.entry, vars: map[string]SVal{}, where: a.name + " " + where}
	for k, v := range a.specVars {
		c.vars[k] = v
	}
	if withLocals {
		c.act = a
	}
	if len(a.fn.FreeVars) > 0 {
		c.fvAct = a
	}
	return c
}

// ---------- loops ----------

type loopRuntime struct {
	variant0 Term
	hasVar   bool
}

func (a *Activation) loopClauses(li *loopInfo) []Clause {
	if a.spec == nil {
		return nil
	}
	return a.spec.LoopInv[li.ord]
}

func (a *Activation) enterLoop(st *State, li *loopInfo) {
	g := a.g
	invs := a.loopClauses(li)
	// establish
	for _, cl := range invs {
		ctx := a.specCtx(st, fmt.Sprintf("loop %d invariant %s", li.ord, cl.Label), true)
		t := ctx.boolOf(ctx.eval(cl.E))
		if ctx.err != nil {
			g.unbound = append(g.unbound, ctx.err.Error())
			continue
		}
		g.oblige(st, a.name, fmt.Sprintf("inv.%d.init", li.ord), cl.Label, t, cl.Pos)
	}
	if len(invs) == 0 && a.top {
		g.note(fmt.Sprintf("loop %d of %s has no invariant (havoc only)", li.ord, a.name))
	}
	// havoc modified state
	cells, heaps, all := a.modSet(li)
	pre := map[cellKey]Val{}
	prePC := st.pc
	for _, k := range cells {
		if v, ok := st.cells[k]; ok {
			pre[k] = v
		}
	}
	for _, k := range cells {
		if old, ok := st.cells[k]; ok {
			elemT := types.Type(nil)
			if k.alloc.Type() != nil {
				elemT = k.alloc.Type().(*types.Pointer).Elem()
			}
			nv := g.fresh("lv_"+mangleShort(k.alloc.Comment), old.T.Sort)
			if elemT != nil {
				g.closed(st, nv, elemT)
			}
			st.cells[k] = Val{T: nv}
		}
	}
	// cells of non-escaping locals of this function that the loop never stores to keep
	// their values across the loop (no callee can reach them either)
	var keepLocs []protectedLoc
	var keepVals []Term
	{
		written := map[*ssa.Alloc]bool{}
		for b := range li.blocks {
			for _, ins := range b.Instrs {
				if stIns, ok := ins.(*ssa.Store); ok {
					if al := baseAlloc(stIns.Addr); al != nil {
						written[al] = true
					}
				}
			}
		}
		for _, pl := range g.localProt {
			if pl.alloc != nil && pl.alloc.Parent() == a.fn && !written[pl.alloc] {
				keepLocs = append(keepLocs, pl)
				keepVals = append(keepVals, g.define("lk", g.load(st, pl.loc, pl.ty)))
			}
		}
	}
	restoreKept := func() {
		for i, pl := range keepLocs {
			g.store(st, pl.loc, pl.ty, keepVals[i])
		}
	}
	if all {
		g.havocAllHeaps(st)
		for k, v := range st.ghosts {
			st.ghosts[k] = g.fresh("ghl", v.Sort)
		}
	} else {
		for _, s := range heaps {
			if s == "$ghosts" {
				var gk []string
				for k := range st.ghosts {
					gk = append(gk, k)
				}
				sort.Strings(gk)
				for _, k := range gk {
					st.ghosts[k] = g.fresh("ghl", st.ghosts[k].Sort)
				}
				continue
			}
			if s == "$heaps" {
				saved := map[string]Term{}
				for k, v := range st.ghosts {
					saved[k] = v
				}
				g.havocAllHeaps(st)
				for k, v := range saved {
					st.ghosts[k] = v
				}
				continue
			}
			if strings.HasPrefix(s, "$ghost:") {
				k := strings.TrimPrefix(s, "$ghost:")
				if old, ok := st.ghosts[k]; ok {
					st.ghosts[k] = g.fresh("ghl", old.Sort)
				}
				continue
			}
			g.havocHeap(st, s)
		}
	}
	restoreKept()
	nc := g.fresh("ctr", "Int")
	g.assertLine(app(SBool, ">=", nc, st.ctr), nc)
	st.ctr = nc
	// hidden loop counters of `range` loops keep their lower bound: -1 <= rangeindex,
	// 0 <= rangeint.iter (established before the loop by the SSA lowering, preserved by
	// the +1 step; both facts are checked as obligations, not assumed)
	for _, k := range cells {
		lb, ok := hiddenCounterLowerBound(k.alloc)
		if !ok {
			continue
		}
		ov, had := pre[k]
		if !had || ov.T.S == "" {
			continue // counter of a nested loop: not live at this loop's head
		}
		g.oblige(&State{pc: prePC}, a.name, fmt.Sprintf("inv.%d.init", li.ord), "range-counter", counterInv(lb, ov.T), token.NoPos)
		g.assume(st, counterInv(lb, st.cells[k].T))
		if a.liveCounters == nil {
			a.liveCounters = map[*loopInfo]map[cellKey]bool{}
		}
		if a.liveCounters[li] == nil {
			a.liveCounters[li] = map[cellKey]bool{}
		}
		a.liveCounters[li][k] = true
	}
	// assume invariants
	for _, cl := range invs {
		ctx := a.specCtx(st, fmt.Sprintf("loop %d invariant %s", li.ord, cl.Label), true)
		t := ctx.boolOf(ctx.eval(cl.E))
		if ctx.err != nil {
			continue
		}
		g.assume(st, t)
	}
	if a.spec != nil {
		if dc, ok := a.spec.LoopDec[li.ord]; ok {
			ctx := a.specCtx(st, fmt.Sprintf("loop %d decreases", li.ord), true)
			v := ctx.eval(dc.E)
			if ctx.err == nil {
				if v.Lit != nil {
					v = ctx.litTo(v, types.Typ[types.Int])
				}
				if a.loopRT == nil {
					a.loopRT = map[*loopInfo]*loopRuntime{}
				}
				a.loopRT[li] = &loopRuntime{variant0: g.define("var0", v.T), hasVar: true}
			} else {
				g.unbound = append(g.unbound, ctx.err.Error())
			}
		}
	}
}

// counterInv: lb <= v < MaxInt64 (inductive with the loop's own `v+1 < bound` test).
func counterInv(lb, v Term) Term {
	return and(bvcmp("bvsle", lb, v), bvcmp("bvslt", v, bv64(1<<63-1)))
}

func hiddenCounterLowerBound(al *ssa.Alloc) (Term, bool) {
	switch al.Comment {
	case "rangeindex":
		return bv64(^uint64(0)), true // -1
	case "rangeint.iter":
		if b, ok := al.Type().(*types.Pointer).Elem().Underlying().(*types.Basic); ok && intBits(b) == 64 && b.Info()&types.IsUnsigned == 0 {
			return bv64(0), true
		}
	}
	return Term{}, false
}

func (a *Activation) backEdge(st *State, li *loopInfo, from *ssa.BasicBlock) {
	g := a.g
	if cells, _, _ := a.modSet(li); true {
		for _, k := range cells {
			if lb, ok := hiddenCounterLowerBound(k.alloc); ok && a.liveCounters[li][k] {
				if v, has := st.cells[k]; has && v.T.S != "" {
					// no wrap: the counter was below the (non-negative) bound it is compared with
					g.oblige(st, a.name, fmt.Sprintf("inv.%d.step", li.ord), "range-counter", counterInv(lb, v.T), token.NoPos)
				}
			}
		}
	}
	for _, cl := range a.loopClauses(li) {
		ctx := a.specCtx(st, fmt.Sprintf("loop %d invariant %s", li.ord, cl.Label), true)
		t := ctx.boolOf(ctx.eval(cl.E))
		if ctx.err != nil {
			continue
		}
		o := g.oblige(st, a.name, fmt.Sprintf("inv.%d.step", li.ord), cl.Label, t, cl.Pos)
		// where the iteration ended (back-edge source), for diagnosis
		for i := len(from.Instrs) - 1; i >= 0; i-- {
			if p := from.Instrs[i].Pos(); p.IsValid() {
				o.Pos += " back-edge@" + g.eng.pos(p)
				break
			}
		}
	}
	if rt := a.loopRT[li]; rt != nil && rt.hasVar {
		dc := a.spec.LoopDec[li.ord]
		ctx := a.specCtx(st, fmt.Sprintf("loop %d decreases", li.ord), true)
		v := ctx.eval(dc.E)
		if ctx.err == nil {
			if v.Lit != nil {
				v = ctx.litTo(v, types.Typ[types.Int])
			}
			zero := bvConst(bitsOf(v.T), 0)
			g.oblige(st, a.name, fmt.Sprintf("dec.%d", li.ord), "", and(bvcmp("bvsle", zero, rt.variant0), bvcmp("bvslt", v.T, rt.variant0)), dc.Pos)
		}
	}
}

// modSet computes what a loop may modify.
func (a *Activation) modSet(li *loopInfo) (cells []cellKey, heaps []string, all bool) {
	g := a.g
	cm := map[cellKey]bool{}
	hm := map[string]bool{}
	var blocks []*ssa.BasicBlock
	for b := range li.blocks {
		blocks = append(blocks, b)
	}
	sort.Slice(blocks, func(i, j int) bool { return blocks[i].Index < blocks[j].Index })
	for _, b := range blocks {
		a.modInstrs(b.Instrs, cm, hm, &all, 0)
	}
	for k := range cm {
		cells = append(cells, k)
	}
	sort.Slice(cells, func(i, j int) bool { return cells[i].alloc.Comment+cells[i].alloc.Name() < cells[j].alloc.Comment+cells[j].alloc.Name() })
	for s := range hm {
		heaps = append(heaps, s)
	}
	sort.Strings(heaps)
	_ = g
	return
}

func (a *Activation) modInstrs(instrs []ssa.Instruction, cm map[cellKey]bool, hm map[string]bool, all *bool, depth int) {
	g := a.g
	for _, ins := range instrs {
		switch ins := ins.(type) {
		case *ssa.Store:
			if al, ok := ins.Addr.(*ssa.Alloc); ok && a.regCell[al] && al.Parent() == a.fn {
				cm[cellKey{a.id, al}] = true
			} else {
				g.leafSorts(ins.Val.Type(), hm)
			}
		case *ssa.MapUpdate:
			mt := ins.Map.Type().Underlying().(*types.Map)
			hm[g.mapHasSort(mt)] = true
			hm[g.mapValSort(mt)] = true
			hm["Int"] = true
		case *ssa.Next:
			if it := a.iters[ins.Iter]; it != nil {
				if it.isStr {
					cm[it.posKey] = true
				} else {
					cm[it.seenKey] = true
				}
			} else if depth == 0 {
				// iterator created later in program order? should not happen; be conservative
				*all = true
			}
		case *ssa.Call:
			a.modCall(ins.Common(), cm, hm, all, depth)
		case *ssa.Defer:
			a.modCall(ins.Common(), cm, hm, all, depth)
		case *ssa.Go, *ssa.Send, *ssa.Select:
			*all = true
		case *ssa.Alloc:
			if !isRegCell(ins) {
				g.leafSorts(ins.Type().(*types.Pointer).Elem(), hm)
			}
		case *ssa.MakeSlice, *ssa.MakeMap:
			// allocation only
		case *ssa.Convert:
			if g.sortOf(ins.Type()) == SSlice && g.sortOf(ins.X.Type()) == SSlice {
				hm[bvSort(8)] = true
			}
		case *ssa.BinOp:
			if ins.Op == token.ADD && g.sortOf(ins.Type()) == SSlice {
				hm[bvSort(8)] = true
			}
		}
	}
}

func (a *Activation) modCall(cc *ssa.CallCommon, cm map[cellKey]bool, hm map[string]bool, all *bool, depth int) {
	g := a.g
	if cc.IsInvoke() {
		key := ifaceMethodKey(cc)
		if sp := g.eng.specs.funcs[key]; sp != nil && sp.HasMod && !sp.ModAll && len(sp.Modifies) == 0 {
			if gk, explicit := g.eng.specs.ghostFrame(sp); explicit {
				for k := range gk {
					hm["$ghost:"+k] = true
				}
			} else {
				hm["$ghosts"] = true
			}
			return
		}
		*all = true
		return
	}
	if b, ok := cc.Value.(*ssa.Builtin); ok {
		switch b.Name() {
		case "append", "copy":
			if sl, ok := cc.Args[0].Type().Underlying().(*types.Slice); ok {
				g.leafSorts(sl.Elem(), hm)
			}
		case "delete":
			mt := cc.Args[0].Type().Underlying().(*types.Map)
			hm[g.mapHasSort(mt)] = true
			hm["Int"] = true
		case "clear":
			*all = true
		}
		return
	}
	callee := cc.StaticCallee()
	if callee == nil {
		// closure stored in a local: find MakeClosure
		if mc := a.findClosure(cc.Value); mc != nil {
			callee = mc
		}
	}
	if callee == nil {
		*all = true
		return
	}
	if callee.Pkg != nil {
		pp := callee.Pkg.Pkg.Path()
		if pp == "go.etcd.io/raft/v3/raftpb" || strings.HasPrefix(pp, "google.golang.org/protobuf") || strings.HasPrefix(pp, modPath+"/pb") {
			switch callee.Name() {
			case "Unmarshal":
				if callee.Signature.Recv() != nil {
					if pt, ok := callee.Signature.Recv().Type().Underlying().(*types.Pointer); ok {
						g.leafSorts(pt.Elem(), hm)
						return
					}
				}
			case "Marshal", "Size", "String", "GetKey", "GetValue", "ProtoReflect":
				if callee.Signature.Recv() != nil {
					return
				}
			}
		}
	}
	if eff, ok := stdlibEffects(callee); ok {
		for _, s := range eff {
			hm[s] = true
		}
		return
	}
	if g.knownPure(callee) {
		return
	}
	var spec *FuncSpec
	if callee.Pkg != nil {
		spec = g.eng.specs.funcs[funcKey(callee)]
	}
	if spec != nil && !spec.Inline && (len(spec.Ensures) > 0 || len(spec.Requires) > 0 || spec.HasMod || len(spec.Ghost) > 0) {
		if spec.HasMod && !spec.ModAll {
			if gk, explicit := g.eng.specs.ghostFrame(spec); explicit {
				for k := range gk {
					hm["$ghost:"+k] = true
				}
			} else {
				hm["$ghosts"] = true // ghost variables may change
			}
			for _, cl := range spec.Ensures {
				if strings.Contains(cl.Text, "held(") {
					hm["Held"] = true
				}
			}
			if len(spec.Modifies) == 0 {
				return
			}
			// specific locations: derive the heap sorts from the declared types where possible
			if !a.modSortsOfSpec(callee, spec, hm) {
				*all = true
			}
			return
		}
		if gk, explicit := g.eng.specs.ghostFrame(spec); explicit {
			// any heap location, but a stated ghost effect
			hm["$heaps"] = true
			for k := range gk {
				hm["$ghost:"+k] = true
			}
			return
		}
		*all = true
		return
	}
	if callee.Blocks != nil && depth < 4 && g.inlinable(callee, spec) {
		for _, b := range callee.Blocks {
			a.modInstrsCallee(callee, b.Instrs, cm, hm, all, depth+1)
		}
		return
	}
	*all = true
}

// modSortsOfSpec adds the heap sorts a contract's modifies clause can touch; false if unknown.
func (a *Activation) modSortsOfSpec(callee *ssa.Function, spec *FuncSpec, hm map[string]bool) bool {
	g := a.g
	typeOfName := func(name string) types.Type {
		for _, fv := range callee.FreeVars {
			if fv.Name() == name {
				return fv.Type().(*types.Pointer).Elem()
			}
		}
		for _, p := range callee.Params {
			if p.Name() == name {
				return p.Type()
			}
		}
		return nil
	}
	for _, m := range spec.Modifies {
		switch e := m.(type) {
		case *EIdent:
			t := typeOfName(e.Name)
			if t == nil {
				return false
			}
			g.leafSorts(t, hm)
		case *EUnary:
			id, ok := e.X.(*EIdent)
			if e.Op != "*" || !ok {
				return false
			}
			t := typeOfName(id.Name)
			if t == nil {
				return false
			}
			pt, ok := t.Underlying().(*types.Pointer)
			if !ok {
				return false
			}
			g.leafSorts(pt.Elem(), hm)
		case *ECall:
			id, ok := e.Fun.(*EIdent)
			if ok && id.Name == "avail" {
				hm["Avail"] = true
				continue
			}
			if !ok || (id.Name != "bytes" && id.Name != "elems") {
				return false
			}
			hm[bvSort(8)] = true
		case *ESel:
			// x.f with x a parameter/free variable of (pointer to) struct type
			id, ok := e.X.(*EIdent)
			if !ok {
				return false
			}
			t := typeOfName(id.Name)
			if t == nil {
				return false
			}
			if pt, ok := t.Underlying().(*types.Pointer); ok {
				t = pt.Elem()
			}
			st, ok := t.Underlying().(*types.Struct)
			if !ok {
				return false
			}
			idx, ft, _ := findField(st, e.Name)
			if idx < 0 {
				return false
			}
			g.leafSorts(ft, hm)
		default:
			return false
		}
	}
	return true
}

func (a *Activation) modInstrsCallee(fn *ssa.Function, instrs []ssa.Instruction, cm map[cellKey]bool, hm map[string]bool, all *bool, depth int) {
	g := a.g
	for _, ins := range instrs {
		switch ins := ins.(type) {
		case *ssa.Store:
			// stores to the callee's own register cells are invisible; others hit the heap
			if al, ok := ins.Addr.(*ssa.Alloc); ok && isRegCell(al) {
				continue
			}
			g.leafSorts(ins.Val.Type(), hm)
		case *ssa.Next:
			// callee-local iterators
		default:
			a.modInstrs([]ssa.Instruction{ins}, cm, hm, all, depth)
		}
	}
}

func (a *Activation) findClosure(v ssa.Value) *ssa.Function {
	switch v := v.(type) {
	case *ssa.MakeClosure:
		return v.Fn.(*ssa.Function)
	case *ssa.Function:
		return v
	case *ssa.UnOp:
		if al, ok := v.X.(*ssa.Alloc); ok && al.Referrers() != nil {
			var found *ssa.Function
			for _, r := range *al.Referrers() {
				if s, ok := r.(*ssa.Store); ok && s.Addr == al {
					f := a.findClosure(s.Val)
					if f == nil || (found != nil && found != f) {
						return nil
					}
					found = f
				}
			}
			return found
		}
	}
	return nil
}

func ifaceMethodKey(cc *ssa.CallCommon) string {
	m := cc.Method
	recv := cc.Value.Type()
	name := "?"
	pkg := ""
	if nt, ok := types.Unalias(recv).(*types.Named); ok {
		name = nt.Obj().Name()
		if nt.Obj().Pkg() != nil {
			pkg = nt.Obj().Pkg().Path()
		}
	} else if m.Pkg() != nil {
		pkg = m.Pkg().Path()
	}
	return pkg + "::(" + name + ")." + m.Name()
}

// ---------- frame ----------

func (a *Activation) topSpecHasMod() bool {
	o := a.owner()
	return o.top && o.spec != nil && o.spec.HasMod && !o.spec.ModAll
}

func (a *Activation) frameGoal(loc Term) Term {
	o := a.owner()
	alts := []Term{app(SBool, ">", app("Int", "root", loc), o.entry.ctr)}
	for _, l := range o.frameLocs {
		alts = append(alts, eq(loc, l))
	}
	for _, r := range o.frameRanges {
		alts = append(alts, and(eq(app("Int", "kind", loc), T("Int", "2")), eq(app(SLoc, "elem_arr", loc), r.arr),
			bvcmp("bvule", r.lo, app(bvSort(64), "elem_idx", loc)), bvcmp("bvult", bvop("bvsub", app(bvSort(64), "elem_idx", loc), r.lo), r.n)))
	}
	return or(alts...)
}

func (a *Activation) frameObligation(st *State, loc Term, pos token.Pos) {
	if !a.topSpecHasMod() {
		return
	}
	a.g.oblige(st, a.owner().name, "frame", fmt.Sprint(a.owner().ord("frame")), a.frameGoal(loc), pos)
}

func (a *Activation) frameObligationAll(st *State, what string) {
	a.g.oblige(st, a.owner().name, "frame", fmt.Sprint(a.owner().ord("frame"))+".havoc-call", tFalse, token.NoPos)
}

// frameRange: writing n elements starting at elem(arr, lo).
func (a *Activation) frameRange(st *State, arr, lo, n Term, pos token.Pos) {
	a.frameRangeCond(st, tTrue, arr, lo, n, pos)
}

func (a *Activation) frameRangeCond(st *State, cond Term, arr, lo, n Term, pos token.Pos) {
	if !a.topSpecHasMod() {
		return
	}
	o := a.owner()
	alts := []Term{not(cond), eq(n, bv64(0)), app(SBool, ">", app("Int", "root", arr), o.entry.ctr)}
	for _, r := range o.frameRanges {
		alts = append(alts, and(eq(arr, r.arr), bvcmp("bvule", r.lo, lo), bvcmp("bvule", bvop("bvadd", bvop("bvsub", lo, r.lo), n), r.n)))
	}
	a.g.oblige(st, o.name, "frame", fmt.Sprint(o.ord("frame")), or(alts...), pos)
}

// evalModifies evaluates the modifies clauses of spec in ctx, returning locations and ranges.
func evalModifies(ctx *SpecCtx, spec *FuncSpec) (locs []Term, locTys []types.Type, ranges []frameRangeT, err error) {
	for _, m := range spec.Modifies {
		if call, ok := m.(*ECall); ok {
			if id, ok := call.Fun.(*EIdent); ok && id.Name == "avail" && len(call.Args) == 1 {
				// ghost stream counter of a reader: havocked separately (see applyContract)
				v := ctx.eval(call.Args[0])
				if ctx.err != nil {
					return nil, nil, nil, ctx.err
				}
				l := v.T
				if l.Sort == SIface {
					l = app(SLoc, "iface_loc", l)
				}
				ranges = append(ranges, frameRangeT{arr: l, lo: T("ghost", "Avail"), n: bv64(0)})
				continue
			}
			if id, ok := call.Fun.(*EIdent); ok && (id.Name == "bytes" || id.Name == "elems") && len(call.Args) == 1 {
				v := ctx.eval(call.Args[0])
				if ctx.err != nil {
					return nil, nil, nil, ctx.err
				}
				if v.T.Sort != SSlice {
					return nil, nil, nil, fmt.Errorf("%s: bytes() of non-slice", ctx.where)
				}
				ranges = append(ranges, frameRangeT{arr: sArr(v.T), lo: sOff(v.T), n: sCap(v.T)})
				continue
			}
		}
		v := ctx.eval(m)
		if ctx.err != nil {
			return nil, nil, nil, ctx.err
		}
		if v.Loc == nil {
			return nil, nil, nil, fmt.Errorf("%s: modifies target %s is not a location", ctx.where, m)
		}
		locs = append(locs, *v.Loc)
		locTys = append(locTys, v.Ty)
	}
	return
}

// ---------- contract call ----------

func paramNames(fn *ssa.Function) []string {
	var out []string
	for i, p := range fn.Params {
		n := p.Name()
		if n == "" || n == "_" {
			n = fmt.Sprintf("p%d", i)
		}
		out = append(out, n)
	}
	return out
}

func resultNames(sig *types.Signature) []string {
	var out []string
	for i := 0; i < sig.Results().Len(); i++ {
		n := sig.Results().At(i).Name()
		if n == "" || n == "_" {
			if i == 0 {
				n = "result"
			} else {
				n = fmt.Sprintf("result%d", i)
			}
		}
		out = append(out, n)
	}
	return out
}

func (a *Activation) contractCall(st *State, callee *ssa.Function, spec *FuncSpec, args []Val, bindings []Val, resT types.Type, pos token.Pos) Val {
	g := a.g
	calleeName := shortPkg(callee.Pkg.Pkg.Path()) + "." + funcRelName(callee)
	pre := st.clone()
	vars := map[string]SVal{}
	for i, n := range paramNames(callee) {
		if i < len(args) {
			vars[n] = SVal{T: a.asTerm(st, args[i], callee.Params[i].Type()), Ty: callee.Params[i].Type()}
		}
	}
	for i, fv := range callee.FreeVars {
		if i < len(bindings) {
			elemT := fv.Type().(*types.Pointer).Elem()
			b := bindings[i]
			if b.Cell != nil {
				vars[fv.Name()] = SVal{T: st.cells[*b.Cell].T, Ty: elemT}
			} else {
				loc := b.T
				vars[fv.Name()] = SVal{T: g.load(st, loc, elemT), Ty: elemT, Loc: &loc, Dyn: true}
			}
		}
	}
	pkg := g.eng.byPath[callee.Pkg.Pkg.Path()]
	return a.applyContract(st, pre, spec, pkg, calleeName, vars, resultNames(callee.Signature), callee.Signature.Results(), pos)
}

func (a *Activation) applyContract(st, pre *State, spec *FuncSpec, pkg *packages.Package, calleeName string, vars map[string]SVal, resNames []string, results *types.Tuple, pos token.Pos) Val {
	g := a.g
	n := a.ord("call." + calleeName)
	// identifiers in a contract are resolved in the package whose contract file states it
	// (for a contract on another package's function that is not the callee's package)
	if dp := g.eng.byPath[spec.PkgPath]; dp != nil {
		pkg = dp
	}
	mk := func(s *State, where string) *SpecCtx {
		c := &SpecCtx{g: g, pkg: pkg, st: s, old: pre, vars: map[string]SVal{}, where: a.name + " call " + calleeName + " " + where}
		for k, v := range vars {
			c.vars[k] = v
		}
		return c
	}
	// lets
	for _, ld := range spec.Lets {
		c := mk(pre, "let "+ld.Name)
		v := c.eval(ld.E)
		if c.err != nil {
			g.unbound = append(g.unbound, c.err.Error())
			continue
		}
		vars[ld.Name] = v
	}
	// preconditions
	for _, cl := range spec.Requires {
		c := mk(pre, "requires "+cl.Label)
		c.old = nil
		t := c.boolOf(c.eval(cl.E))
		if c.err != nil {
			g.unbound = append(g.unbound, c.err.Error())
			continue
		}
		g.oblige(st, a.name, "pre", fmt.Sprintf("%s.%d.%s", calleeName, n, cl.Label), t, pos)
		g.assume(st, t)
	}
	if spec.Trusted {
		g.trusted["trusted contract (body not verified): "+calleeName] = true
	} else {
		g.assumedContracts[spec.Key] = true
	}
	// frame
	if !spec.HasMod || spec.ModAll {
		savedGhosts := map[string]Term{}
		for k, v := range st.ghosts {
			savedGhosts[k] = v
		}
		g.havocAllHeapsAtCall(st)
		if _, explicit := g.eng.specs.ghostFrame(spec); explicit {
			// the ghost effect of this callee is stated explicitly (below)
			for k, v := range savedGhosts {
				st.ghosts[k] = v
			}
		}
		if a.topSpecHasMod() {
			a.frameObligationAll(st, calleeName)
		}
	} else {
		c := mk(pre, "modifies")
		locs, tys, ranges, err := evalModifies(c, spec)
		if err != nil {
			g.unbound = append(g.unbound, err.Error())
			g.havocAllHeapsAtCall(st)
		} else {
			for i, l := range locs {
				a.frameObligation(st, l, pos)
				a.havocLoc(st, l, tys[i])
			}
			for _, r := range ranges {
				if r.lo.Sort == "ghost" {
					nv := g.fresh("avail", bvSort(64))
					st.heaps["Avail"] = sto(g.heap(st, "Avail"), r.arr, nv)
					continue
				}
				a.frameRange(st, r.arr, r.lo, r.n, pos)
				a.havocRange(st, bvSort(8), r)
			}
		}
	}
	// a contract that talks about lock ownership changes the ghost held-flags
	for _, cl := range spec.Ensures {
		if strings.Contains(cl.Text, "held(") {
			g.havocHeap(st, "Held")
			break
		}
	}
	nc := g.fresh("ctr", "Int")
	g.assertLine(app(SBool, ">=", nc, st.ctr), nc)
	st.ctr = nc
	// results
	var res Val
	var rvals []Val
	for i := 0; i < results.Len(); i++ {
		rv := a.havocValue(st, results.At(i).Type(), "res_"+mangleShort(resNames[i]))
		rvals = append(rvals, rv)
		vars[resNames[i]] = SVal{T: rv.T, Ty: results.At(i).Type()}
	}
	if len(rvals) == 1 {
		res = rvals[0]
	} else if len(rvals) > 1 {
		res.Tuple = rvals
	}
	// ghost effects: a contract with explicit `ghost v = e` clauses changes exactly those
	// ghost variables; one tagged ghost-pure changes none; any other callee may change
	// every ghost variable (its ensures clauses relate old and new values)
	if frame, explicit := g.eng.specs.ghostFrame(spec); !explicit || len(spec.GhostMod) > 0 {
		assigned := map[string]bool{} // targets of ghost clauses get their value below
		for _, gu := range spec.Ghost {
			if gv := g.eng.specs.findGhost(pkg.PkgPath, gu.Var); gv != nil {
				assigned[gv.PkgPath+"::"+gv.Name] = true
			}
		}
		var gk []string
		for k := range st.ghosts {
			if (!explicit || frame[k]) && !assigned[k] {
				gk = append(gk, k)
			}
		}
		sort.Strings(gk)
		for _, k := range gk {
			st.ghosts[k] = g.fresh("ghc", st.ghosts[k].Sort)
		}
	}
	for _, gu := range spec.Ghost {
		gv := g.eng.specs.findGhost(pkg.PkgPath, gu.Var)
		if gv == nil {
			g.unbound = append(g.unbound, fmt.Sprintf("%s: unknown ghost %s", calleeName, gu.Var))
			continue
		}
		c := mk(st, "ghost "+gu.Var)
		v := c.eval(gu.E)
		if c.err != nil {
			g.unbound = append(g.unbound, c.err.Error())
			continue
		}
		ty, _ := resolveTypeIn(g, g.eng.byPath[gv.PkgPath], gv.Type)
		if v.Lit != nil {
			v = c.litTo(v, ty)
		}
		st.ghosts[gv.PkgPath+"::"+gv.Name] = g.define("gh", v.T)
	}
	// postconditions
	for _, cl := range spec.Ensures {
		if cl.Local {
			continue // exit clause: about the body's locals, not part of the callers' view
		}
		c := mk(st, "ensures "+cl.Label)
		t := c.boolOf(c.eval(cl.E))
		if c.err != nil {
			g.unbound = append(g.unbound, c.err.Error())
			continue
		}
		g.assume(st, t)
	}
	return res
}

func (a *Activation) havocLoc(st *State, loc Term, t types.Type) {
	g := a.g
	switch u := t.Underlying().(type) {
	case *types.Struct:
		for i := 0; i < u.NumFields(); i++ {
			a.havocLoc(st, g.fldLoc(loc, t, i), u.Field(i).Type())
		}
		return
	case *types.Array:
		g.havocHeapSortsOf(st, u.Elem())
		return
	}
	v := g.fresh("hv", g.sortOf(t))
	g.closed(st, v, t)
	g.store(st, loc, t, v)
}

// havocRange havocs elements [lo, lo+n) of arr in the heap of sort, keeping the rest.
func (a *Activation) havocRange(st *State, sortName string, r frameRangeT) {
	g := a.g
	h := g.heap(st, sortName)
	hold := g.fresh("Hr0", h.Sort)
	g.assertLine(eq(hold, h), hold)
	hn := g.fresh("Hr", h.Sort)
	g.quantified = true
	arrN, loN, nN := g.define("hra", r.arr), g.define("hrl", r.lo), g.define("hrn", r.n)
	g.assertLine(T(SBool, fmt.Sprintf("(forall ((l Loc)) (! (=> (not (and (= (kind l) 2) (= (elem_arr l) %s) (bvule %s (elem_idx l)) (bvult (bvsub (elem_idx l) %s) %s))) (= (select %s l) (select %s l))) :pattern ((select %s l))))",
		arrN.S, loN.S, loN.S, nN.S, hn.S, hold.S, hn.S)), hn)
	st.heaps[sortName] = hn
}

// ifaceContractCall applies an interface method contract if one exists.
func (a *Activation) ifaceContractCall(st *State, cc *ssa.CallCommon, recv Val, args []Val, pos token.Pos, setRes func(Val), resT types.Type) bool {
	g := a.g
	key := ifaceMethodKey(cc)
	spec := g.eng.specs.funcs[key]
	if spec == nil {
		return false
	}
	pkgPath := strings.SplitN(key, "::", 2)[0]
	pkg := g.eng.byPath[pkgPath]
	if pkg == nil {
		pkg = a.pkg()
	}
	sig := cc.Method.Type().(*types.Signature)
	vars := map[string]SVal{"self": {T: recv.T, Ty: cc.Value.Type()}}
	for i := 0; i < sig.Params().Len(); i++ {
		n := sig.Params().At(i).Name()
		if n == "" || n == "_" {
			n = fmt.Sprintf("p%d", i)
		}
		if i < len(args) {
			vars[n] = SVal{T: a.asTerm(st, args[i], sig.Params().At(i).Type()), Ty: sig.Params().At(i).Type()}
		}
	}
	pre := st.clone()
	name := strings.TrimPrefix(key, modPath+"/")
	name = strings.Replace(name, "::", ".", 1)
	setRes(a.applyContract(st, pre, spec, pkg, name, vars, resultNames(sig), sig.Results(), pos))
	return true
}
