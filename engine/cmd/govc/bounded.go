package main

import (
	"encoding/json"
	"fmt"
	"os"
	"os/exec"
	"path/filepath"
	"regexp"
	"sort"
	"strconv"
	"strings"
)

// Bounded stand-ins: where a function cannot be brought within the verifier's reach, an
// exhaustive check of the REAL function over a stated finite bound may stand in. It is
// labelled bounded everywhere and never counted among the discharged obligations.
//
// A stand-in is an in-package Go test file /verif/bounded/<prop>/<name>_test.go whose first
// line is   // bounded: pkg=<dir> run=<TestRegex> bound=<free text>
// and which prints "BOUNDED-CASES <n>" (the number of cases it enumerated). It is injected
// with `go test -overlay`, nothing is written to the repository.
type boundedResult struct {
	Name   string `json:"name"`
	Pkg    string `json:"package"`
	Bound  string `json:"bound"`
	Cases  int    `json:"cases_enumerated"`
	Nontrivial int      `json:"nontrivial_cases"`
	Samples    []string `json:"samples,omitempty"`
	Pass   bool   `json:"pass"`
	Output string `json:"-"`
	File   string `json:"file"`
}

var boundedHead = regexp.MustCompile(`^// bounded: pkg=(\S+) run=(\S+) bound=(.*)$`)

func runBounded(repo, verif, prop string) []boundedResult {
	files, _ := filepath.Glob(filepath.Join(verif, "bounded", prop, "*_test.go"))
	sort.Strings(files)
	var out []boundedResult
	for _, f := range files {
		data, err := os.ReadFile(f)
		if err != nil {
			continue
		}
		first := strings.SplitN(string(data), "\n", 2)[0]
		m := boundedHead.FindStringSubmatch(strings.TrimSpace(first))
		if m == nil {
			out = append(out, boundedResult{Name: filepath.Base(f), File: f, Output: "missing '// bounded: pkg= run= bound=' header"})
			continue
		}
		res := boundedResult{Name: strings.TrimSuffix(filepath.Base(f), "_test.go"), Pkg: m[1], Bound: strings.TrimSpace(m[3]), File: f}
		dir, err := os.MkdirTemp("", "govc-bounded-")
		if err != nil {
			res.Output = err.Error()
			out = append(out, res)
			continue
		}
		ov := map[string]any{"Replace": map[string]string{filepath.Join(repo, m[1], "zz_verif_bounded_"+filepath.Base(f)): f}}
		ovData, _ := json.Marshal(ov)
		ovPath := filepath.Join(dir, "overlay.json")
		os.WriteFile(ovPath, ovData, 0o644)
		cmd := exec.Command("go", "test", "-v", "-tags", "verif", "-vet=off", "-count=1", "-timeout", "600s", "-overlay", ovPath, "-run", m[2], "./"+m[1]+"/")
		cmd.Dir = repo
		cmd.Env = append(os.Environ(), "GOFLAGS=-mod=mod", "GOPROXY=off")
		b, err := cmd.CombinedOutput()
		os.RemoveAll(dir)
		res.Output = string(b)
		if cm := regexp.MustCompile(`BOUNDED-CASES (\d+)`).FindStringSubmatch(res.Output); cm != nil {
			res.Cases, _ = strconv.Atoi(cm[1])
		}
		if nm := regexp.MustCompile(`BOUNDED-NONTRIVIAL (\d+)`).FindStringSubmatch(res.Output); nm != nil {
			res.Nontrivial, _ = strconv.Atoi(nm[1])
		}
		for _, sm := range regexp.MustCompile(`(?m)^BOUNDED-SAMPLE (.*)$`).FindAllStringSubmatch(res.Output, 8) {
			res.Samples = append(res.Samples, sm[1])
		}
		res.Pass = err == nil && res.Cases > 0
		out = append(out, res)
	}
	return out
}

// reportBounded prints the outcome lines and records failures as violations.
func (r *propReport) reportBounded(e *Engine) {
	r.bounded = runBounded(e.repo, r.verif, r.prop)
	for _, b := range r.bounded {
		if b.Pass {
			fmt.Printf("BOUNDED property=%s name=%s cases=%d result=pass bound=%q (bounded stand-in, not a proof)\n", r.prop, b.Name, b.Cases, b.Bound)
			continue
		}
		if kf := r.findKnown("bounded:" + b.Name); kf != nil {
			kf.seen = true
			r.knownHit = append(r.knownHit, "bounded:"+b.Name)
			fmt.Printf("KNOWN-FINDING: property=%s bounded:%s %s\n", r.prop, b.Name, kf.text)
			continue
		}
		dir := filepath.Join(r.verif, "replays", r.prop)
		os.MkdirAll(dir, 0o755)
		path := filepath.Join(dir, "bounded-"+b.Name+".txt")
		os.WriteFile(path, []byte(fmt.Sprintf("property: %s\nbounded stand-in: %s\nbound: %s\ntest file (runs against the real code via go test -overlay): %s\noutput:\n%s\n", r.prop, b.Name, b.Bound, b.File, b.Output)), 0o644)
		fmt.Printf("VIOLATION property=%s replay=%s obligation=bounded:%s status=failed-on-real-code\n", r.prop, path, b.Name)
		r.violations = append(r.violations, "bounded:"+b.Name)
	}
}
