package main

import (
	"fmt"
	"regexp"
	"strings"
)

// copyInfo: heap term h equals base everywhere except (possibly) at element locations
// of array dst (fid < 0) or at field fid of element locations of dst (fid >= 0).
type copyInfo struct {
	base Term
	dst  Term
	fid  int
}

func (g *Gen) recordCopy(hn, base, dst Term, fid int) {
	if g.copies == nil {
		g.copies = map[string]copyInfo{}
	}
	g.copies[hn.S] = copyInfo{base: base, dst: dst, fid: fid}
}

// Syntactic select-over-store simplification for heap terms. The generator records
// the structure of every heap term it builds (store chains and ite merges), so that
// a load can skip writes to locations that are provably different.

type storeInfo struct {
	base, loc, val Term
}

type mergeInfo struct {
	conds []Term // len n-1
	terms []Term // len n
}

func (g *Gen) heapStore(h, loc, v Term) Term {
	t := sto(h, loc, v)
	if g.stores == nil {
		g.stores = map[string]storeInfo{}
	}
	g.stores[t.S] = storeInfo{base: h, loc: loc, val: v}
	return t
}

func (g *Gen) recordAlias(name string, body Term) {
	if si, ok := g.stores[body.S]; ok {
		g.stores[name] = si
	}
	if mi, ok := g.merges[body.S]; ok {
		g.merges[name] = mi
	}
}

func (g *Gen) heapSelect(h, loc Term) Term {
	if g.selMemo == nil {
		g.selMemo = map[string]Term{}
	}
	key := h.S + "@" + loc.S
	if t, ok := g.selMemo[key]; ok {
		return t
	}
	t := g.heapSelect0(h, loc, 0)
	g.selMemo[key] = t
	return t
}

func (g *Gen) heapSelect0(h, loc Term, depth int) Term {
	for {
		if si, ok := g.stores[h.S]; ok {
			if si.loc.S == loc.S {
				return si.val
			}
			if distinctLocs(si.loc, loc) {
				h = si.base
				continue
			}
			return sel(h, loc)
		}
		if ci, ok := g.copies[h.S]; ok {
			// h is base except at element locations (kind 2) or at field fid of element locations
			ls := resolveDef(loc.S)
			k := locKind(ls)
			skip := false
			switch {
			case k == 0:
				skip = true
			case ci.fid < 0 && k == 1:
				skip = true
			case ci.fid >= 0 && k == 2:
				skip = true
			case ci.fid >= 0 && k == 1:
				p := splitArgs(ls)
				if len(p) == 3 && (p[2] != fmt.Sprint(ci.fid) || locKind(resolveDef(p[1])) != 2) {
					skip = true
				}
			case k == 2:
				// element of a different, provably distinct array
				p := splitArgs(ls)
				if len(p) == 3 && distinctLocs(T(SLoc, p[1]), ci.dst) {
					skip = true
				}
			}
			if skip {
				h = ci.base
				continue
			}
			return sel(h, loc)
		}
		if mi, ok := g.merges[h.S]; ok && depth < 6 {
			var vals []Term
			same := true
			for _, t := range mi.terms {
				v := g.heapSelect(t, loc)
				vals = append(vals, v)
				if v.S != vals[0].S {
					same = false
				}
			}
			if same {
				return vals[0]
			}
			// only push the select through the merge when every branch simplified
			simplified := true
			for i, v := range vals {
				if v.S == sel(mi.terms[i], loc).S {
					simplified = false
				}
			}
			if simplified {
				r := vals[len(vals)-1]
				for i := len(vals) - 2; i >= 0; i-- {
					r = ite(mi.conds[i], vals[i], r)
				}
				return r
			}
		}
		return sel(h, loc)
	}
}

// locKind classifies a location term: 0 base object, 1 field, 2 element, -1 unknown.
func locKind(s string) int {
	switch {
	case strings.HasPrefix(s, "obj_"), strings.HasPrefix(s, "glob_"), strings.HasPrefix(s, "strc_"):
		return 0
	case strings.HasPrefix(s, "(fld "):
		return 1
	case strings.HasPrefix(s, "(elem "):
		return 2
	}
	return -1
}

// distinctLocs reports whether two location terms denote different locations in every model.
func distinctLocs(a, b Term) bool {
	as, bs := resolveDef(a.S), resolveDef(b.S)
	if as == bs {
		return false
	}
	ka, kb := locKind(as), locKind(bs)
	if ka >= 0 && kb >= 0 && ka != kb {
		return true
	}
	if ka == 0 && kb == 0 {
		// distinct allocation sites / globals / constants are distinct objects
		return true
	}
	// parameters and free variables predate every object allocated in the function
	if (ka == 0 && strings.HasPrefix(as, "obj_") && isEntryName(bs)) || (kb == 0 && strings.HasPrefix(bs, "obj_") && isEntryName(as)) {
		return true
	}
	if ka == 1 && kb == 1 {
		pa, pb := splitArgs(as), splitArgs(bs)
		if len(pa) == 3 && len(pb) == 3 {
			if pa[2] != pb[2] {
				return true
			}
			return distinctLocs(T(SLoc, pa[1]), T(SLoc, pb[1]))
		}
	}
	if ka == 2 && kb == 2 {
		pa, pb := splitArgs(as), splitArgs(bs)
		if len(pa) == 3 && len(pb) == 3 {
			if pa[1] == pb[1] {
				x, okx := constBV(T(bvSort(64), pa[2]))
				y, oky := constBV(T(bvSort(64), pb[2]))
				return okx && oky && x != y
			}
			return distinctLocs(T(SLoc, pa[1]), T(SLoc, pb[1]))
		}
	}
	// a field/element of an entry pointer vs a fresh object
	if (ka == 0 && strings.HasPrefix(as, "obj_") && rootIsEntry(bs)) || (kb == 0 && strings.HasPrefix(bs, "obj_") && rootIsEntry(as)) {
		return true
	}
	return false
}

func isEntryName(s string) bool {
	return strings.HasPrefix(s, "p_") || strings.HasPrefix(s, "fv_")
}

// rootIsEntry: the term is a path of fld/elem over an entry name or entry slice array.
func rootIsEntry(s string) bool {
	for i := 0; i < 8; i++ {
		s = resolveDef(s)
		if isEntryName(s) {
			return true
		}
		if strings.HasPrefix(s, "(s_arr ") {
			p := splitArgs(s)
			return len(p) == 2 && isEntryName(resolveDef(p[1]))
		}
		if strings.HasPrefix(s, "(fld ") || strings.HasPrefix(s, "(elem ") {
			p := splitArgs(s)
			if len(p) != 3 {
				return false
			}
			s = p[1]
			continue
		}
		return false
	}
	return false
}

// copyDefRe matches the location-wise definition of a memcpy'd heap:
// (assert (forall ((l Loc)) (! (= (select NEW l) (ite ... (select OLD l))) :pattern ...
var copyDefRe = regexp.MustCompile(`^\(assert \(forall \(\(l Loc\)\) \(! \(= \(select (\S+) l\) \(ite .*\(select (\S+) l\)\)\) :pattern`)
