package main

import (
	"sort"
	"strings"
)

// inferPatterns chooses E-matching triggers for a quantified specification formula:
// memory reads (select ...) and spec-function applications that mention the bound
// variables. Leaving the choice to the solver picks arithmetic atoms too often.
func inferPatterns(body string, vars []string) []string {
	if len(vars) == 0 {
		return nil
	}
	type cand struct {
		text string
		vars map[string]bool
	}
	var cands []cand
	seen := map[string]bool{}
	// only memory reads are used as triggers; formulas over abstract values (ByteSeq
	// comparisons, spec functions) are left to the solver's own trigger selection
	heads := []string{"(select "}
	for _, h := range heads {
		idx := 0
		for {
			i := strings.Index(body[idx:], h)
			if i < 0 {
				break
			}
			start := idx + i
			idx = start + len(h)
			depth, end := 0, -1
			for j := start; j < len(body); j++ {
				if body[j] == '(' {
					depth++
				} else if body[j] == ')' {
					depth--
					if depth == 0 {
						end = j + 1
						break
					}
				}
			}
			if end < 0 {
				break
			}
			t := body[start:end]
			if seen[t] || strings.Contains(t, "(forall ") || strings.Contains(t, "(exists ") || strings.Contains(t, "(ite ") || len(t) > 600 {
				continue
			}
			seen[t] = true
			c := cand{text: t, vars: map[string]bool{}}
			toks := strings.FieldsFunc(t, func(r rune) bool { return r == '(' || r == ')' || r == ' ' })
			for _, w := range toks {
				for _, v := range vars {
					if w == v {
						c.vars[v] = true
					}
				}
			}
			if len(c.vars) > 0 {
				cands = append(cands, c)
			}
		}
	}
	if len(cands) == 0 {
		return nil
	}
	// prefer small terms; drop candidates that strictly contain another candidate with the same variables
	sort.SliceStable(cands, func(i, j int) bool { return len(cands[i].text) < len(cands[j].text) })
	var kept []cand
	for _, c := range cands {
		redundant := false
		for _, k := range kept {
			if strings.Contains(c.text, k.text) && len(k.vars) == len(c.vars) {
				redundant = true
				break
			}
		}
		if !redundant {
			kept = append(kept, c)
		}
	}
	var pats []string
	// single terms covering all variables: each is an alternative trigger
	for _, c := range kept {
		if len(c.vars) == len(vars) && len(pats) < 3 {
			pats = append(pats, ":pattern ("+c.text+")")
		}
	}
	if len(pats) > 0 {
		return pats
	}
	// otherwise one multi-pattern: greedily cover the variables
	covered := map[string]bool{}
	var multi []string
	for _, c := range kept {
		adds := false
		for v := range c.vars {
			if !covered[v] {
				adds = true
			}
		}
		if adds {
			multi = append(multi, c.text)
			for v := range c.vars {
				covered[v] = true
			}
		}
		if len(covered) == len(vars) {
			break
		}
	}
	if len(covered) == len(vars) {
		return []string{":pattern (" + strings.Join(multi, " ") + ")"}
	}
	return nil
}
