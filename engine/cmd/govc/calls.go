package main

import (
	"fmt"
	"go/token"
	"go/types"
	"strings"

	"golang.org/x/tools/go/ssa"
)

const maxInlineDepth = 6

// call executes a call; ins may be nil (deferred call).
func (a *Activation) call(st *State, ins *ssa.Call, cc *ssa.CallCommon, pos token.Pos) {
	g := a.g
	setRes := func(v Val) {
		if ins != nil {
			a.set(ins, v)
		}
	}
	var resT types.Type = types.NewTuple()
	if ins != nil {
		resT = ins.Type()
	} else {
		resT = cc.Signature().Results()
	}
	var args []Val
	for _, x := range cc.Args {
		args = append(args, a.val(st, x))
	}
	if cc.IsInvoke() {
		recv := a.val(st, cc.Value)
		if a.ifaceContractCall(st, cc, recv, args, pos, setRes, resT) {
			return
		}
		if cc.Method.Name() == "Error" && len(args) == 0 && types.Identical(cc.Value.Type(), types.Universe.Lookup("error").Type()) {
			// err.Error(): rendering an error value is taken to be pure (unknown text, no
			// effect on the heap or on ghost state)
			g.trusted["(error).Error is pure: it returns some text and changes neither memory nor ghost state"] = true
			setRes(a.havocValue(st, resT, "errtext"))
			return
		}
		a.havocCall(st, cc.Method.FullName(), append([]Val{recv}, args...), resT, setRes, true)
		return
	}
	fv := a.val(st, cc.Value)
	if fv.Builtin != "" {
		setRes(a.builtin(st, fv.Builtin, cc, args, resT, pos))
		return
	}
	var callee *ssa.Function
	var bindings []Val
	if fv.Clo != nil {
		callee = fv.Clo.Fn
		bindings = fv.Clo.Bindings
	} else if c, ok := g.cloTab[fv.T.S]; ok {
		callee = c.Fn
		bindings = c.Bindings
	}
	if callee == nil && g.noopFns[fv.T.S] {
		setRes(a.zeroVal(resT))
		return
	}
	if callee == nil {
		// a call through a function-typed struct field may have a contract keyed by the
		// field: "<pkg>::field (T).name"
		if key, ok := fieldCallKey(cc.Value); ok {
			if spec := g.eng.specs.funcs[key]; spec != nil {
				sig := cc.Signature()
				vars := map[string]SVal{}
				for i := 0; i < sig.Params().Len() && i < len(args); i++ {
					n := sig.Params().At(i).Name()
					if n == "" || n == "_" {
						n = fmt.Sprintf("p%d", i)
					}
					vars[n] = SVal{T: a.asTerm(st, args[i], sig.Params().At(i).Type()), Ty: sig.Params().At(i).Type()}
					vars[fmt.Sprintf("p%d", i)] = vars[n]
				}
				pkg := g.eng.byPath[strings.SplitN(key, "::", 2)[0]]
				pre := st.clone()
				setRes(a.applyContract(st, pre, spec, pkg, strings.Replace(strings.TrimPrefix(key, modPath+"/"), "::", ".", 1), vars, resultNames(sig), sig.Results(), pos))
				return
			}
		}
		a.havocCall(st, "dynamic call in "+a.name, args, resT, setRes, true)
		return
	}
	var spec *FuncSpec
	if callee.Pkg != nil {
		spec = g.eng.specs.funcs[funcKey(callee)]
	}
	// 1. stdlib models (an explicit trusted contract with ghost effects on a library
	// function outside the module replaces the built-in model: the contract is then
	// what records the call)
	useModel := spec == nil || !spec.Trusted || len(spec.Ghost) == 0 || callee.Pkg == nil || strings.HasPrefix(callee.Pkg.Pkg.Path(), modPath)
	if useModel {
		if res, ok := a.stdlibCall(st, callee, cc, args, resT, pos); ok {
			setRes(res)
			return
		}
	}
	// 2. contract
	inlineAll := false
	if o := a.owner(); o.spec != nil && o.spec.Tags["inline-calls"] {
		inlineAll = callee.Blocks != nil && (spec == nil || !spec.Trusted)
	}
	if spec != nil && !spec.Inline && !inlineAll && (len(spec.Ensures) > 0 || len(spec.Requires) > 0 || spec.HasMod || len(spec.Ghost) > 0) {
		setRes(a.contractCall(st, callee, spec, args, bindings, resT, pos))
		return
	}
	// 3. inline
	if callee.Blocks != nil && a.depth < maxInlineDepth && (g.inlinable(callee, spec) || (inlineAll && callee.Pkg != nil && strings.HasPrefix(callee.Pkg.Pkg.Path(), modPath))) {
		setRes(a.inlineCall(st, callee, args, bindings, resT, pos))
		return
	}
	a.havocCall(st, callee.String(), args, resT, setRes, !g.knownPure(callee))
}

func (g *Gen) inlinable(fn *ssa.Function, spec *FuncSpec) bool {
	if spec != nil && spec.Inline {
		return true
	}
	if fn.Pkg == nil || !strings.HasPrefix(fn.Pkg.Pkg.Path(), modPath) {
		return false
	}
	if fn.Recover != nil {
		return false
	}
	n := 0
	for _, b := range fn.Blocks {
		n += len(b.Instrs)
		for _, s := range b.Succs {
			if s.Dominates(b) {
				// loop: only with invariants (spec) or explicit inline
				if spec == nil || len(spec.LoopInv) == 0 {
					return false
				}
			}
		}
	}
	if fn.Parent() != nil {
		return n <= 400 // closures are inlined on shared cells
	}
	return n <= 150
}

func (g *Gen) knownPure(fn *ssa.Function) bool {
	if fn.Pkg == nil {
		return false
	}
	p := fn.Pkg.Pkg.Path()
	switch p {
	case "fmt", "errors", "strings", "strconv", "bytes", "math", "math/bits", "unicode", "unicode/utf8", "sort", "time", "log", "github.com/pkg/errors", "hash/crc32", "encoding/binary", "path/filepath", "slices", "cmp":
		return true
	}
	return false
}

func (a *Activation) havocCall(st *State, name string, args []Val, resT types.Type, setRes func(Val), heapToo bool) {
	g := a.g
	if heapToo {
		g.note("havoc call (no contract, results and all heaps unconstrained): " + name)
		g.havocAllHeapsAtCall(st)
		for k := range st.ghosts {
			_ = k
		}
		nc := g.fresh("ctr", "Int")
		g.assertLine(app(SBool, ">=", nc, st.ctr), nc)
		st.ctr = nc
		if a.topSpecHasMod() {
			a.frameObligationAll(st, name)
		}
	} else {
		g.note("pure library call with unconstrained result: " + name)
		g.stdUsed[name] = true
	}
	setRes(a.havocValue(st, resT, "call"))
}

func (a *Activation) inlineCall(st *State, callee *ssa.Function, args []Val, bindings []Val, resT types.Type, pos token.Pos) Val {
	g := a.g
	sub := g.newActivation(callee, false, a.depth+1)
	sub.safety = a.safety
	sub.name = a.name // obligations inside inlined bodies are attributed to the verified function
	sub.counter = a.counter
	sub.frameOwner = a.owner()
	sub.specVars = map[string]SVal{}
	for i, p := range callee.Params {
		if i < len(args) {
			sub.env[p] = args[i]
			// entry values of the parameters, as x0, for the callee's loop invariants
			if args[i].T.S != "" {
				sub.specVars[paramNames(callee)[i]+"0"] = SVal{T: args[i].T, Ty: p.Type()}
			}
		}
	}
	for i, fv := range callee.FreeVars {
		if i < len(bindings) {
			sub.env[fv] = bindings[i]
		}
	}
	entry := st.clone()
	sub.entry = entry
	work := st.clone()
	savedChain := g.callChain
	g.callChain = g.callChain + " <- " + g.eng.pos(pos)
	sub.run(work)
	g.callChain = savedChain
	if len(sub.rets) == 0 {
		// callee never returns normally (panics / infinite loop)
		st.pc = tFalse
		return a.zeroVal(resT)
	}
	var preds []*State
	for _, r := range sub.rets {
		preds = append(preds, r.st)
	}
	var merged *State
	if len(preds) == 1 {
		merged = preds[0]
	} else {
		merged = sub.merge(preds, nil, callee.Blocks[0])
	}
	// results
	var res Val
	nres := callee.Signature.Results().Len()
	if nres == 1 {
		var vs []Val
		for _, r := range sub.rets {
			vs = append(vs, r.vals[0])
		}
		if len(vs) == 1 {
			res = vs[0]
		} else {
			res = sub.mergeVals(vs, preds, "ret")
		}
	} else if nres > 1 {
		for i := 0; i < nres; i++ {
			var vs []Val
			for _, r := range sub.rets {
				vs = append(vs, r.vals[i])
			}
			if len(vs) == 1 {
				res.Tuple = append(res.Tuple, vs[0])
			} else {
				res.Tuple = append(res.Tuple, sub.mergeVals(vs, preds, "ret"))
			}
		}
	}
	*st = *merged
	return res
}

func (a *Activation) zeroVal(t types.Type) Val {
	if tup, ok := t.(*types.Tuple); ok {
		if tup.Len() == 1 {
			return Val{T: a.g.zero(tup.At(0).Type())}
		}
		var out Val
		for i := 0; i < tup.Len(); i++ {
			out.Tuple = append(out.Tuple, Val{T: a.g.zero(tup.At(i).Type())})
		}
		return out
	}
	return Val{T: a.g.zero(t)}
}

func (a *Activation) owner() *Activation {
	if a.frameOwner != nil {
		return a.frameOwner
	}
	return a
}

// ---------- builtins ----------

func (a *Activation) builtin(st *State, name string, cc *ssa.CallCommon, args []Val, resT types.Type, pos token.Pos) Val {
	g := a.g
	switch name {
	case "len":
		t := cc.Args[0].Type().Underlying()
		switch u := t.(type) {
		case *types.Slice, *types.Basic:
			return Val{T: sLen(args[0].T)}
		case *types.Array:
			return Val{T: bv64(uint64(u.Len()))}
		case *types.Pointer:
			return Val{T: bv64(uint64(u.Elem().Underlying().(*types.Array).Len()))}
		case *types.Map:
			return Val{T: a.mapLen(st, args[0].T, t.(*types.Map))}
		}
		return a.havocValue(st, resT, "len")
	case "cap":
		switch u := cc.Args[0].Type().Underlying().(type) {
		case *types.Slice:
			return Val{T: sCap(args[0].T)}
		case *types.Array:
			return Val{T: bv64(uint64(u.Len()))}
		}
		return a.havocValue(st, resT, "cap")
	case "append":
		return Val{T: a.appendSlice(st, args[0].T, args[1].T, cc.Args[0].Type(), cc.Args[1].Type(), pos)}
	case "copy":
		dst, src := args[0].T, args[1].T
		n := ite(bvcmp("bvult", sLen(dst), sLen(src)), sLen(dst), sLen(src))
		n = g.define("cpn", n)
		elemT := cc.Args[0].Type().Underlying().(*types.Slice).Elem()
		a.frameRange(st, sArr(dst), sOff(dst), n, pos)
		m := map[string]bool{}
		g.leafSorts(elemT, m)
		if len(m) == 1 {
			for s := range m {
				a.memcpy(st, s, sArr(dst), sOff(dst), sArr(src), sOff(src), n)
			}
		} else {
			g.note("copy of multi-field elements: heaps havocked")
			g.havocHeapSortsOf(st, elemT)
		}
		return Val{T: n}
	case "min", "max":
		x := args[0].T
		for i := 1; i < len(args); i++ {
			y := args[i].T
			var c Term
			signed := isSigned(cc.Args[0].Type())
			if _, ok := isBV(x.Sort); !ok {
				return a.havocValue(st, resT, "minmax")
			}
			op := "bvult"
			if signed {
				op = "bvslt"
			}
			if name == "min" {
				c = bvcmp(op, y, x)
			} else {
				c = bvcmp(op, x, y)
			}
			x = ite(c, y, x)
		}
		return Val{T: x}
	case "delete":
		a.mapDelete(st, args[0].T, args[1].T, cc.Args[0].Type().Underlying().(*types.Map), cc.Args[1].Type())
		return Val{}
	case "print", "println":
		return Val{}
	case "recover":
		return Val{T: nilIface}
	case "clear":
		g.note("clear() modelled as havoc")
		g.havocAllHeaps(st)
		return Val{}
	}
	g.note("unsupported builtin " + name)
	return a.havocValue(st, resT, "bi")
}

// appendSlice models append(s, more...) where more is a slice (variadic already packed by SSA).
func (a *Activation) appendSlice(st *State, s, more Term, sT, moreT types.Type, pos token.Pos) Term {
	g := a.g
	var elemT types.Type
	if sl, ok := sT.Underlying().(*types.Slice); ok {
		elemT = sl.Elem()
	} else {
		return a.havocValue(st, sT, "append").T
	}
	m := map[string]bool{}
	g.leafSorts(elemT, m)
	fields := flatFields(g, elemT)
	if fields == nil {
		g.note("append of nested-struct elements: heaps havocked, result unconstrained except length")
		g.havocHeapSortsOf(st, elemT)
		r := a.havocValue(st, sT, "append").T
		g.assume(st, eq(sLen(r), bvop("bvadd", sLen(s), sLen(more))))
		return r
	}
	if len(fields) > 1 || fields[0].id >= 0 {
		return a.appendStructs(st, s, more, elemT, fields, pos)
	}
	var sortName string
	for k := range m {
		sortName = k
	}
	n := g.define("apn", sLen(more))
	resArr, resOff, newLen, resCap := a.appendPrep(st, s, n, pos)
	// the first len(s) elements of the result equal the old elements: an identity copy
	// when appending in place, a real copy after reallocation (one uniform definition)
	if l, ok := constBV(sLen(s)); !ok || l != 0 {
		a.memcpy(st, sortName, resArr, resOff, sArr(s), sOff(s), sLen(s))
	}
	// append new elements: explicitly when their number is a small constant
	if c, ok := constBV(n); ok && c <= 8 {
		for i := uint64(0); i < c; i++ {
			v := g.heapSelect(g.heap(st, sortName), elemLoc(sArr(more), bvop("bvadd", sOff(more), bv64(i))))
			st.heaps[sortName] = g.heapStore(g.heap(st, sortName), elemLoc(resArr, bvop("bvadd", bvop("bvadd", resOff, sLen(s)), bv64(i))), v)
		}
	} else {
		a.memcpy(st, sortName, resArr, bvop("bvadd", resOff, sLen(s)), sArr(more), sOff(more), n)
	}
	res := mkSlice(resArr, resOff, newLen, resCap)
	// append(nil, empty...) stays nil
	if c, ok := constBV(n); !ok || c == 0 {
		res = ite(and(eq(n, bv64(0)), eq(sArr(s), nilLoc)), s, res)
	}
	return g.define("app", res)
}

// appendPrep decides where the result of append(s, n more elements) lives: the same
// array (in place, capacity suffices) or a fresh one. Both cases are described by one
// pair (ra, ro) so that callers can state the content of the result uniformly.
func (a *Activation) appendPrep(st *State, s, n Term, pos token.Pos) (ra, ro, newLen, resCap Term) {
	g := a.g
	newLen = g.define("apl", bvop("bvadd", sLen(s), n))
	a.allocCheck(st, newLen, pos)
	fits := g.define("fits", bvcmp("bvule", newLen, sCap(s)))
	fresh := g.newObject(st, "append")
	newCap := g.fresh("apcap", bvSort(64))
	g.assertLine(and(bvcmp("bvuge", newCap, newLen), bvcmp("bvule", newCap, bv64(1<<40))), newCap)
	if c, ok := constBV(sCap(s)); ok && c == 0 {
		// appending to an empty-capacity slice always allocates
		if cn, ok := constBV(n); ok && cn > 0 {
			return fresh, bv64(0), newLen, newCap
		}
	}
	ra = g.fresh("apa", SLoc)
	ro = g.fresh("apo", bvSort(64))
	g.assertLine(and(implies(fits, and(eq(ra, sArr(s)), eq(ro, sOff(s)))), implies(not(fits), and(eq(ra, fresh), eq(ro, bv64(0)))),
		eq(app("Int", "root", ra), ite(fits, app("Int", "root", sArr(s)), app("Int", "root", fresh)))), ra, ro)
	resCap = ite(fits, sCap(s), newCap)
	a.frameRangeCond(st, fits, sArr(s), bvop("bvadd", sOff(s), sLen(s)), n, pos)
	return ra, ro, newLen, resCap
}

func (a *Activation) strEq(st *State, x, y Term) Term {
	g := a.g
	if _, ok := g.constStringOf(y); ok {
		return and(eq(sLen(x), sLen(y)), a.bytesEqContent(st, x, y))
	}
	if _, ok := g.constStringOf(x); ok {
		return and(eq(sLen(x), sLen(y)), a.bytesEqContent(st, x, y))
	}
	return a.bytesEqual(st, x, y)
}

// bytesEqual is content equality of two byte slices/strings: a fresh Boolean b with
//   b  ⇒ len equal ∧ ∀i<len. x[i] = y[i]
//   ¬b ⇒ len differ ∨ x[w] ≠ y[w] for a witness w < len
// and, when the ByteSeq abstraction is in use, b ⇔ abs(x) = abs(y).
func (a *Activation) bytesEqual(st *State, x, y Term) Term {
	g := a.g
	if x.S == y.S {
		return tTrue
	}
	g.quantified = true
	h := g.define("Hq", g.heap(st, bvSort(8)))
	xN := g.define("sx", x)
	yN := g.define("sy", y)
	if g.noDefine > 0 {
		g.nfresh++
		iv := fmt.Sprintf("q_i_%d", g.nfresh)
		atq := func(s Term) string {
			return fmt.Sprintf("(select %s (elem %s (bvadd %s %s)))", h.S, sArr(s).S, sOff(s).S, iv)
		}
		return and(eq(sLen(xN), sLen(yN)), T(SBool, fmt.Sprintf("(forall ((%s (_ BitVec 64))) (=> (bvult %s %s) (= %s %s)))", iv, iv, sLen(xN).S, atq(xN), atq(yN))))
	}
	b := g.fresh("beq", SBool)
	w := g.fresh("beqw", bvSort(64))
	at := func(s Term, i string) string {
		return fmt.Sprintf("(select %s (elem %s (bvadd %s %s)))", h.S, sArr(s).S, sOff(s).S, i)
	}
	all := fmt.Sprintf("(forall ((i (_ BitVec 64))) (! (=> (bvult i %s) (= %s %s)) :pattern (%s) :pattern (%s)))", sLen(xN).S, at(xN, "i"), at(yN, "i"), at(xN, "i"), at(yN, "i"))
	g.assertLine(implies(b, and(eq(sLen(xN), sLen(yN)), T(SBool, all))), b)
	g.assertLine(implies(not(b), or(not(eq(sLen(xN), sLen(yN))), and(bvcmp("bvult", w, sLen(xN)), not(eq(T(bvSort(8), at(xN, w.S)), T(bvSort(8), at(yN, w.S))))))), b, w)
	if g.declared["bs_abs"] {
		g.assertLine(eq(b, eq(g.absBytes(st, xN), g.absBytes(st, yN))), b)
	}
	return b
}

// bytesEqContent: forall i < len(x): x[i] == y[i] (lengths assumed equal by caller context).
func (a *Activation) bytesEqContent(st *State, x, y Term) Term {
	g := a.g
	// constant strings: expand
	if s, ok := g.constStringOf(y); ok {
		return a.eqConst(st, x, s)
	}
	if s, ok := g.constStringOf(x); ok {
		return a.eqConst(st, y, s)
	}
	if x.S == y.S {
		return tTrue
	}
	g.quantified = true
	h := g.heap(st, bvSort(8))
	hN := g.define("Hq", h)
	xN := g.define("sx", x)
	yN := g.define("sy", y)
	return T(SBool, fmt.Sprintf("(forall ((i (_ BitVec 64))) (=> (bvult i (s_len %s)) (= (select %s (elem (s_arr %s) (bvadd (s_off %s) i))) (select %s (elem (s_arr %s) (bvadd (s_off %s) i))))))",
		xN.S, hN.S, xN.S, xN.S, hN.S, yN.S, yN.S))
}

func (g *Gen) constStringOf(t Term) (string, bool) {
	for s, v := range g.strConsts {
		if v.S == t.S {
			return s, true
		}
	}
	return "", false
}

func (a *Activation) eqConst(st *State, x Term, s string) Term {
	g := a.g
	if len(s) > 64 {
		return g.fresh("streq", SBool)
	}
	h := g.heap(st, bvSort(8))
	cs := []Term{}
	for i := 0; i < len(s); i++ {
		cs = append(cs, eq(sel(h, elemLoc(sArr(x), bvop("bvadd", sOff(x), bv64(uint64(i))))), bvConst(8, uint64(s[i]))))
	}
	return and(cs...)
}

func (a *Activation) strConcat(st *State, x, y Term) Term {
	g := a.g
	arr := g.newObject(st, "concat")
	n := g.define("ccn", bvop("bvadd", sLen(x), sLen(y)))
	a.memcpy(st, bvSort(8), arr, bv64(0), sArr(x), sOff(x), sLen(x))
	a.memcpy(st, bvSort(8), arr, sLen(x), sArr(y), sOff(y), sLen(y))
	return mkSlice(arr, bv64(0), n, n)
}

// bytesCompare returns a 64-bit signed term in {-1,0,1}: lexicographic comparison of contents.
// It is an uninterpreted function of the abstract byte sequences with order axioms.
func (a *Activation) bytesCompare(st *State, x, y Term) Term {
	g := a.g
	return app(bvSort(64), "bs_cmp", g.absBytes(st, x), g.absBytes(st, y))
}

// absBytes abstracts the content of a byte slice/string under the current heap.
func (g *Gen) absBytes(st *State, x Term) Term {
	g.useByteSeq()
	h := g.heap(st, bvSort(8))
	hN := g.define("Hb", h)
	xN := g.define("bsx", x)
	t := app(SBSeq, "bs_abs", hN, xN)
	// frame/extensionality axiom: needed only once byte sequences are taken under two
	// different heaps (or formal heaps of spec functions) in the same proof
	g.noteAbsHeap(hN.S)
	if g.noDefine > 0 {
		return t // under a binder: the quantified ByteSeq axioms relate it to its content
	}
	return g.absNamed(st, t, xN)
}

// noteAbsHeap records a byte heap under which sequences are abstracted and adds the
// frame/extensionality axiom as soon as two different actual heaps are involved.
func (g *Gen) noteAbsHeap(name string) {
	if strings.HasPrefix(name, "Hp_") {
		return
	}
	if g.absHeaps == nil {
		g.absHeaps = map[string]bool{}
	}
	g.absHeaps[name] = true
	if len(g.absHeaps) > 1 && !g.declared["bs_fdiff"] {
		g.declared["bs_fdiff"] = true
		g.header = append(g.header,
			"(declare-fun bs_fdiff ((Array Loc (_ BitVec 8)) (Array Loc (_ BitVec 8)) Slice Slice) (_ BitVec 64))")
		g.sfAxioms = append(g.sfAxioms, sfAxiom{trigs: []string{"(bs_abs "}, light: true, text: "(assert (forall ((h1 (Array Loc (_ BitVec 8))) (h2 (Array Loc (_ BitVec 8))) (s1 Slice) (s2 Slice)) (! (or (= (bs_abs h1 s1) (bs_abs h2 s2)) (not (= (s_len s1) (s_len s2))) (and (bvult (bs_fdiff h1 h2 s1 s2) (s_len s1)) (not (= (select h1 (elem (s_arr s1) (bvadd (s_off s1) (bs_fdiff h1 h2 s1 s2)))) (select h2 (elem (s_arr s2) (bvadd (s_off s2) (bs_fdiff h1 h2 s1 s2)))))))) :pattern ((bs_abs h1 s1) (bs_abs h2 s2)))))"})
	}
}

// absNamed names an abstraction term by a fresh constant with its ground facts.
func (g *Gen) absNamed(st *State, t Term, xN Term) Term {
	key := t.S
	if b, ok := g.absCache[key]; ok {
		return b
	}
	b := g.fresh("bs", SBSeq)
	// ground instances: definition, length, emptiness
	g.assertLine(and(eq(b, t), eq(app(bvSort(64), "bs_len", b), sLen(xN)), eq(eq(sLen(xN), bv64(0)), eq(b, T(SBSeq, "bs_empty")))), b)
	if g.absCache == nil {
		g.absCache = map[string]Term{}
	}
	g.absCache[key] = b
	return b
}

func (g *Gen) useByteSeq() {
	if g.declared["bs_abs"] {
		return
	}
	g.declared["bs_abs"] = true
	g.header = append(g.header,
		"(declare-fun bs_abs ((Array Loc (_ BitVec 8)) Slice) ByteSeq)",
		"(declare-fun bs_len (ByteSeq) (_ BitVec 64))",
		"(declare-fun bs_at (ByteSeq (_ BitVec 64)) (_ BitVec 8))",
		"(declare-fun bs_cmp (ByteSeq ByteSeq) (_ BitVec 64))",
		"(declare-fun bs_rank (ByteSeq) Int)",
		"(declare-const bs_empty ByteSeq)",
	)
	// the quantified theory of ByteSeq joins a query only when the query mentions it
	bsTrigs := []string{"(bs_abs ", "(bs_cmp ", "(bs_rank ", "(bs_at ", "(bs_len "}
	for _, t := range []string{
		"(assert (= (bs_len bs_empty) #x0000000000000000))",
		"(assert (forall ((h (Array Loc (_ BitVec 8))) (s Slice) (i (_ BitVec 64))) (! (=> (bvult i (s_len s)) (= (bs_at (bs_abs h s) i) (select h (elem (s_arr s) (bvadd (s_off s) i))))) :pattern ((bs_at (bs_abs h s) i)))))",
		"(assert (forall ((h (Array Loc (_ BitVec 8))) (s Slice)) (! (and (= (bs_len (bs_abs h s)) (s_len s)) (=> (= (s_len s) #x0000000000000000) (= (bs_abs h s) bs_empty))) :pattern ((bs_abs h s)))))",
		"(assert (forall ((x ByteSeq) (y ByteSeq)) (! (and (= (= (bs_cmp x y) #x0000000000000000) (= x y)) (= (= (bs_cmp x y) #xffffffffffffffff) (< (bs_rank x) (bs_rank y))) (= (= (bs_cmp x y) #x0000000000000001) (> (bs_rank x) (bs_rank y))) (or (= (bs_cmp x y) #x0000000000000000) (= (bs_cmp x y) #xffffffffffffffff) (= (bs_cmp x y) #x0000000000000001))) :pattern ((bs_cmp x y)))))",
		"(assert (forall ((x ByteSeq) (y ByteSeq)) (! (=> (= (bs_rank x) (bs_rank y)) (= x y)) :pattern ((bs_rank x) (bs_rank y)))))",
		"(assert (forall ((x ByteSeq)) (! (<= (bs_rank bs_empty) (bs_rank x)) :pattern ((bs_rank x)))))",
	} {
		g.sfAxioms = append(g.sfAxioms, sfAxiom{trigs: bsTrigs, light: true, text: t})
	}
	g.quantified = true
	g.trusted["bytes.Compare/bytes.Equal are modelled as a total order / equality on abstract byte sequences (ByteSeq); the empty sequence is least; extensionality (equal contents ⇒ equal ByteSeq) is axiomatised only where stated"] = true
}

// fieldCallKey recognises a call through a function-typed field loaded from a struct
// (v = *&x.f; v(...)) and returns the contract key "<pkg>::field (T).f".
func fieldCallKey(v ssa.Value) (string, bool) {
	u, ok := v.(*ssa.UnOp)
	if !ok || u.Op != token.MUL {
		return "", false
	}
	// a call through a package-level variable of function type: "<pkg>::var Name"
	if gl, ok := u.X.(*ssa.Global); ok && gl.Pkg != nil {
		return gl.Pkg.Pkg.Path() + "::var " + gl.Name(), true
	}
	fa, ok := u.X.(*ssa.FieldAddr)
	if !ok {
		return "", false
	}
	pt, ok := fa.X.Type().Underlying().(*types.Pointer)
	if !ok {
		return "", false
	}
	nt, ok := types.Unalias(pt.Elem()).(*types.Named)
	if !ok || nt.Obj().Pkg() == nil {
		return "", false
	}
	st, ok := nt.Underlying().(*types.Struct)
	if !ok {
		return "", false
	}
	return nt.Obj().Pkg().Path() + "::field (" + nt.Obj().Name() + ")." + st.Field(fa.Field).Name(), true
}
