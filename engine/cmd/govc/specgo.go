package main

import (
	"go/token"
	"go/types"

	"golang.org/x/tools/go/ssa"
)

// callGo evaluates a call of a Go function or method inside a specification by
// symbolically inlining its real body on a scratch copy of the state. Only pure,
// loop-free functions make sense here (accessors, predicates); state changes made by
// the callee are discarded.
func (c *SpecCtx) callGo(e *ECall) (SVal, bool) {
	g := c.g
	var fn *ssa.Function
	var args []SVal
	switch f := e.Fun.(type) {
	case *EIdent:
		obj := c.pkg.Types.Scope().Lookup(f.Name)
		tf, ok := obj.(*types.Func)
		if !ok {
			return SVal{}, false
		}
		fn = g.eng.prog.FuncValue(tf)
	case *ESel:
		// package-qualified function?
		if id, ok := f.X.(*EIdent); ok {
			if _, isVar := c.vars[id.Name]; !isVar && (c.act == nil || !c.act.hasLocal(id.Name)) {
				if p := c.findPkg(id.Name); p != nil {
					if tf, ok := p.Types.Scope().Lookup(f.Name).(*types.Func); ok {
						fn = g.eng.prog.FuncValue(tf)
					}
				}
			}
		}
		if fn == nil {
			recv := c.eval(f.X)
			if c.err != nil || recv.Ty == nil {
				return SVal{}, false
			}
			obj, _, _ := types.LookupFieldOrMethod(recv.Ty, true, nil, f.Name)
			if obj == nil && c.pkg != nil {
				obj, _, _ = types.LookupFieldOrMethod(recv.Ty, true, c.pkg.Types, f.Name)
			}
			tf, ok := obj.(*types.Func)
			if !ok {
				return SVal{}, false
			}
			fn = g.eng.prog.FuncValue(tf)
			if fn == nil {
				return SVal{}, false
			}
			// receiver adjustment: method on *T called with T value that has an address, or vice versa
			rt := fn.Signature.Recv().Type()
			if _, wantPtr := rt.Underlying().(*types.Pointer); wantPtr {
				if _, isPtr := recv.Ty.Underlying().(*types.Pointer); !isPtr {
					if recv.Loc == nil {
						return SVal{}, false
					}
					recv = SVal{T: *recv.Loc, Ty: types.NewPointer(recv.Ty)}
				}
			} else if pt, isPtr := recv.Ty.Underlying().(*types.Pointer); isPtr {
				recv = SVal{T: g.load(c.st, recv.T, pt.Elem()), Ty: pt.Elem()}
			}
			args = append(args, recv)
		}
	default:
		return SVal{}, false
	}
	if fn == nil || fn.Blocks == nil {
		return SVal{}, false
	}
	for _, b := range fn.Blocks {
		for _, s := range b.Succs {
			if s.Dominates(b) {
				c.fail("%s: Go function %s used in a specification has a loop", c.where, fn.Name())
				return SVal{}, true
			}
		}
	}
	nparams := len(fn.Params)
	for _, a := range e.Args {
		v := c.eval(a)
		args = append(args, v)
	}
	if len(args) != nparams {
		c.fail("%s: %s expects %d arguments", c.where, fn.Name(), nparams)
		return SVal{}, true
	}
	var vals []Val
	for i, a := range args {
		if a.Lit != nil {
			a = c.litTo(a, fn.Params[i].Type())
		}
		if isNilTy(a.Ty) {
			a = c.nilOf(SVal{T: T(g.sortOf(fn.Params[i].Type()), ""), Ty: fn.Params[i].Type()})
		}
		vals = append(vals, Val{T: a.T})
	}
	if g.specDepth > 6 {
		c.fail("%s: specification call depth exceeded at %s", c.where, fn.Name())
		return SVal{}, true
	}
	g.specDepth++
	defer func() { g.specDepth-- }()
	parent := &Activation{g: g, counter: map[string]int{}, safety: map[string]bool{}, name: "spec", fn: fn}
	scratch := c.st.clone()
	scratch.pc = tTrue
	savedObls := len(g.obls)
	res := parent.inlineCall(scratch, fn, vals, nil, fn.Signature.Results(), token.NoPos)
	g.obls = g.obls[:savedObls] // obligations inside spec evaluation are not proof goals
	// the callee's own path assumptions (nil checks etc.) are part of its definedness;
	// they are not asserted: the value is whatever the body computes on the feasible path
	if fn.Signature.Results().Len() != 1 {
		c.fail("%s: %s must return exactly one value to be used in a specification", c.where, fn.Name())
		return SVal{}, true
	}
	return SVal{T: res.T, Ty: fn.Signature.Results().At(0).Type()}, true
}
