package main

import (
	"fmt"
	"go/types"

	"golang.org/x/tools/go/ssa"
)

// Maps are heap objects: two heaps per (key sort, value sort):
//   Mhas_<K> : Array Loc (Array K Bool),  Mval_<K>_<V> : Array Loc (Array K V)
// String keys are abstracted to ByteSeq.

func (g *Gen) mapKeySort(m *types.Map) string {
	if b, ok := m.Key().Underlying().(*types.Basic); ok && b.Info()&types.IsString != 0 {
		g.useByteSeq()
		return SBSeq
	}
	return g.sortOf(m.Key())
}

func (g *Gen) mapHasSort(m *types.Map) string { return arraySort(g.mapKeySort(m), SBool) }
func (g *Gen) mapValSort(m *types.Map) string {
	return arraySort(g.mapKeySort(m), g.sortOf(m.Elem()))
}

func (a *Activation) mapKey(st *State, k Term, m *types.Map) Term {
	if b, ok := m.Key().Underlying().(*types.Basic); ok && b.Info()&types.IsString != 0 {
		return a.g.absBytes(st, k)
	}
	return k
}

func (a *Activation) mapInitEmpty(st *State, loc Term, t types.Type) {
	g := a.g
	m := t.Underlying().(*types.Map)
	hs := g.mapHasSort(m)
	st.heaps[hs] = sto(g.heap(st, hs), loc, T(hs, fmt.Sprintf("((as const %s) false)", hs)))
	cs := "MapCard"
	_ = cs
	st.heaps["Int"] = sto(g.heapInt(st), loc, T("Int", "0"))
}

// heapInt holds map cardinalities.
func (g *Gen) heapInt(st *State) Term { return g.heap(st, "Int") }

func (a *Activation) mapLen(st *State, m Term, mt *types.Map) Term {
	g := a.g
	card := sel(g.heapInt(st), m)
	// len as bv64 with card>=0; relation kept abstract (int2bv avoided): fresh bv constrained by sign only
	l := g.fresh("maplen", bvSort(64))
	g.assertLine(and(bvcmp("bvsge", l, bv64(0)), bvcmp("bvsle", l, bv64(1<<40)), eq(eq(l, bv64(0)), eq(card, T("Int", "0")))), l)
	// an empty map has no member (and a nil map is empty)
	hasArr := sel(g.heap(st, g.mapHasSort(mt)), m)
	emptyArr := T(hasArr.Sort, fmt.Sprintf("((as const %s) false)", hasArr.Sort))
	g.assertLine(implies(eq(l, bv64(0)), or(eq(m, nilLoc), eq(hasArr, emptyArr))), l)
	return l
}

func (a *Activation) lookup(st *State, ins *ssa.Lookup) {
	g := a.g
	x := a.val(st, ins.X)
	idx := a.val(st, ins.Index)
	switch u := ins.X.Type().Underlying().(type) {
	case *types.Map:
		k := a.mapKey(st, idx.T, u)
		has := sel(sel(g.heap(st, g.mapHasSort(u)), x.T), k)
		has = and(not(eq(x.T, nilLoc)), has)
		v := sel(sel(g.heap(st, g.mapValSort(u)), x.T), k)
		val := ite(has, v, g.zero(u.Elem()))
		val = g.define("mv", val)
		if has.S != "false" {
			g.closed(st, val, u.Elem())
		}
		if ins.CommaOk {
			a.set(ins, Val{Tuple: []Val{{T: val}, {T: has}}})
		} else {
			a.set(ins, Val{T: val})
		}
	case *types.Basic:
		i64 := a.intTo64(idx.T, ins.Index.Type())
		a.boundCheck(st, "idx", idxOK(i64, sLen(x.T)), ins.Pos())
		a.set(ins, Val{T: sel(g.heap(st, bvSort(8)), elemLoc(sArr(x.T), bvop("bvadd", sOff(x.T), i64)))})
	default:
		a.set(ins, a.havocValue(st, ins.Type(), "lookup"))
	}
}

func (a *Activation) mapUpdate(st *State, ins *ssa.MapUpdate) {
	g := a.g
	m := a.val(st, ins.Map).T
	mt := ins.Map.Type().Underlying().(*types.Map)
	k := a.mapKey(st, a.val(st, ins.Key).T, mt)
	v := a.asTerm(st, a.val(st, ins.Value), mt.Elem())
	a.nilCheck(st, m, ins.Pos())
	a.frameCheck(st, m, ins.Pos())
	hs, vs := g.mapHasSort(mt), g.mapValSort(mt)
	hh := g.heap(st, hs)
	had := sel(sel(hh, m), k)
	card := sel(g.heapInt(st), m)
	st.heaps["Int"] = sto(g.heapInt(st), m, ite(had, card, app("Int", "+", card, T("Int", "1"))))
	st.heaps[hs] = sto(hh, m, sto(sel(hh, m), k, tTrue))
	hv := g.heap(st, vs)
	st.heaps[vs] = sto(hv, m, sto(sel(hv, m), k, v))
}

func (a *Activation) mapDelete(st *State, m, key Term, mt *types.Map, kt types.Type) {
	g := a.g
	k := a.mapKey(st, key, mt)
	hs := g.mapHasSort(mt)
	hh := g.heap(st, hs)
	had := and(not(eq(m, nilLoc)), sel(sel(hh, m), k))
	card := sel(g.heapInt(st), m)
	st.heaps["Int"] = sto(g.heapInt(st), m, ite(had, app("Int", "-", card, T("Int", "1")), card))
	st.heaps[hs] = sto(hh, m, sto(sel(hh, m), k, tFalse))
}

// Range over maps/strings: the iterator is modelled by a ghost "seen" set for maps.
// rangeInit creates an iterator token; rangeNext yields (ok, key, value) with
//   ok ⇒ has(key) ∧ ¬seen(key);   ¬ok ⇒ ∀k. has(k) ⇒ seen(k)
// and adds key to seen. The seen set lives in a register cell of the activation so
// that loop havoc applies to it; invariants may mention it via seen(m).
type rangeIter struct {
	mapLoc  Term
	mt      *types.Map
	seenKey cellKey
	isStr   bool
	str     Term
	posKey  cellKey
}

func (a *Activation) rangeInit(st *State, ins *ssa.Range) {
	g := a.g
	x := a.val(st, ins.X)
	switch u := ins.X.Type().Underlying().(type) {
	case *types.Map:
		ks := g.mapKeySort(u)
		seenSort := arraySort(ks, SBool)
		key := cellKey{a.id, a.pseudoAlloc(ins, "seen")}
		st.cells[key] = Val{T: T(seenSort, fmt.Sprintf("((as const %s) false)", seenSort))}
		if a.iters == nil {
			a.iters = map[ssa.Value]*rangeIter{}
		}
		a.iters[ins] = &rangeIter{mapLoc: x.T, mt: u, seenKey: key}
		a.set(ins, Val{T: x.T})
	case *types.Basic:
		key := cellKey{a.id, a.pseudoAlloc(ins, "strpos")}
		st.cells[key] = Val{T: bv64(0)}
		if a.iters == nil {
			a.iters = map[ssa.Value]*rangeIter{}
		}
		a.iters[ins] = &rangeIter{isStr: true, str: x.T, posKey: key}
		a.set(ins, Val{T: x.T})
	default:
		g.note("range over unsupported type")
		a.set(ins, Val{T: x.T})
	}
}

// pseudoAlloc fabricates a unique *ssa.Alloc key for ghost cells of an instruction.
func (a *Activation) pseudoAlloc(v ssa.Value, tag string) *ssa.Alloc {
	if a.pseudo == nil {
		a.pseudo = map[string]*ssa.Alloc{}
	}
	k := fmt.Sprintf("%p/%s", v, tag)
	if al, ok := a.pseudo[k]; ok {
		return al
	}
	al := &ssa.Alloc{Comment: tag + "(" + v.Name() + ")"}
	a.pseudo[k] = al
	return al
}

func (a *Activation) rangeNext(st *State, ins *ssa.Next) {
	g := a.g
	it := a.iters[ins.Iter]
	if it == nil {
		a.set(ins, a.havocValue(st, ins.Type(), "next"))
		return
	}
	if it.isStr {
		g.note("range over string: runes modelled as bytes (ASCII only) ")
		pos := st.cells[it.posKey].T
		ok := bvcmp("bvult", pos, sLen(it.str))
		b := sel(g.heap(st, bvSort(8)), elemLoc(sArr(it.str), bvop("bvadd", sOff(it.str), pos)))
		st.cells[it.posKey] = Val{T: ite(ok, bvop("bvadd", pos, bv64(1)), pos)}
		a.set(ins, Val{Tuple: []Val{{T: ok}, {T: pos}, {T: zext(b, 32)}}})
		return
	}
	mt := it.mt
	ks := g.mapKeySort(mt)
	seen := st.cells[it.seenKey].T
	hasArr := sel(g.heap(st, g.mapHasSort(mt)), it.mapLoc)
	valArr := sel(g.heap(st, g.mapValSort(mt)), it.mapLoc)
	ok := g.fresh("rok", SBool)
	k := g.fresh("rkey", ks)
	seenN := g.define("seen", seen)
	hasN := g.define("mhas", hasArr)
	g.quantified = true
	g.assertLine(implies(ok, and(sel(hasN, k), not(sel(seenN, k)), not(eq(it.mapLoc, nilLoc)))), ok, k)
	g.assertLine(implies(not(ok), T(SBool, fmt.Sprintf("(forall ((k %s)) (! (=> (select %s k) (select %s k)) :pattern ((select %s k))))", ks, hasN.S, seenN.S, hasN.S))), ok)
	st.cells[it.seenKey] = Val{T: ite(ok, sto(seenN, k, tTrue), seenN)}
	var keyVal Term
	if ks == SBSeq {
		// key string value: some string whose abstraction is k
		sv := g.fresh("rkeystr", SSlice)
		g.closed(st, sv, mt.Key())
		g.assertLine(eq(g.absBytes(st, sv), k), sv)
		keyVal = sv
	} else {
		keyVal = k
	}
	v := g.define("rval", sel(valArr, k))
	g.closed(st, v, mt.Elem())
	a.set(ins, Val{Tuple: []Val{{T: ok}, {T: keyVal}, {T: v}}})
}
