package main

import (
	"fmt"
	"strings"
	"unicode"
)

// ---------- spec expression AST ----------

type Expr interface{ String() string }

type (
	EIdent  struct{ Name string }
	EInt    struct{ Text string }
	EStr    struct{ Val string }
	EBool   struct{ Val bool }
	ENil    struct{}
	EUnary  struct {
		Op string
		X  Expr
	}
	EBinary struct {
		Op   string
		X, Y Expr
	}
	ECall struct {
		Fun  Expr
		Args []Expr
	}
	EIndex struct {
		X, I Expr
	}
	ESlice struct {
		X, Lo, Hi Expr
	}
	ESel struct {
		X    Expr
		Name string
	}
	EOld   struct{ X Expr }
	EQuant struct {
		Forall bool
		Vars   []QVar
		Body   Expr
	}
	ECond struct{ C, A, B Expr } // c ? a : b
)

type QVar struct {
	Name string
	Type string // Go type text or spec type
}

func (e *EIdent) String() string  { return e.Name }
func (e *EInt) String() string    { return e.Text }
func (e *EStr) String() string    { return fmt.Sprintf("%q", e.Val) }
func (e *EBool) String() string   { return fmt.Sprint(e.Val) }
func (e *ENil) String() string    { return "nil" }
func (e *EUnary) String() string  { return e.Op + e.X.String() }
func (e *EBinary) String() string { return "(" + e.X.String() + " " + e.Op + " " + e.Y.String() + ")" }
func (e *ECall) String() string {
	var a []string
	for _, x := range e.Args {
		a = append(a, x.String())
	}
	return e.Fun.String() + "(" + strings.Join(a, ", ") + ")"
}
func (e *EIndex) String() string { return e.X.String() + "[" + e.I.String() + "]" }
func (e *ESlice) String() string {
	lo, hi := "", ""
	if e.Lo != nil {
		lo = e.Lo.String()
	}
	if e.Hi != nil {
		hi = e.Hi.String()
	}
	return e.X.String() + "[" + lo + ":" + hi + "]"
}
func (e *ESel) String() string { return e.X.String() + "." + e.Name }
func (e *EOld) String() string { return "old(" + e.X.String() + ")" }
func (e *EQuant) String() string {
	q := "exists"
	if e.Forall {
		q = "forall"
	}
	var vs []string
	for _, v := range e.Vars {
		vs = append(vs, v.Name+" "+v.Type)
	}
	return "(" + q + " " + strings.Join(vs, ", ") + " :: " + e.Body.String() + ")"
}
func (e *ECond) String() string {
	return "(" + e.C.String() + " ? " + e.A.String() + " : " + e.B.String() + ")"
}

// ---------- lexer ----------

type tok struct {
	kind string // id, int, str, op, eof
	text string
}

type lexer struct {
	toks []tok
	p    int
}

func lex(s string) ([]tok, error) {
	var out []tok
	i := 0
	ops3 := []string{"<==>", "==>", "&&", "||", "==", "!=", "<=", ">=", "<<", ">>", "&^", "::"}
	for i < len(s) {
		c := rune(s[i])
		switch {
		case unicode.IsSpace(c):
			i++
		case c == '/' && i+1 < len(s) && s[i+1] == '/':
			i = len(s) // trailing comment
		case unicode.IsLetter(c) || c == '_':
			j := i
			for j < len(s) && (unicode.IsLetter(rune(s[j])) || unicode.IsDigit(rune(s[j])) || s[j] == '_' || s[j] == '#') {
				j++
			}
			out = append(out, tok{"id", s[i:j]})
			i = j
		case unicode.IsDigit(c):
			j := i
			for j < len(s) && (unicode.IsDigit(rune(s[j])) || unicode.IsLetter(rune(s[j])) || s[j] == '_') {
				j++
			}
			out = append(out, tok{"int", strings.ReplaceAll(s[i:j], "_", "")})
			i = j
		case c == '"':
			j := i + 1
			var b strings.Builder
			for j < len(s) && s[j] != '"' {
				if s[j] == '\\' && j+1 < len(s) {
					j++
					switch s[j] {
					case 'n':
						b.WriteByte('\n')
					case 'r':
						b.WriteByte('\r')
					case 't':
						b.WriteByte('\t')
					case '0':
						b.WriteByte(0)
					default:
						b.WriteByte(s[j])
					}
				} else {
					b.WriteByte(s[j])
				}
				j++
			}
			if j >= len(s) {
				return nil, fmt.Errorf("unterminated string")
			}
			out = append(out, tok{"str", b.String()})
			i = j + 1
		case c == '\'':
			// char literal
			j := i + 1
			var v byte
			if j < len(s) && s[j] == '\\' && j+1 < len(s) {
				switch s[j+1] {
				case 'n':
					v = '\n'
				case 'r':
					v = '\r'
				case 't':
					v = '\t'
				case '0':
					v = 0
				default:
					v = s[j+1]
				}
				j += 2
			} else if j < len(s) {
				v = s[j]
				j++
			}
			if j >= len(s) || s[j] != '\'' {
				return nil, fmt.Errorf("bad char literal")
			}
			out = append(out, tok{"int", fmt.Sprint(int(v))})
			i = j + 1
		default:
			matched := false
			for _, op := range ops3 {
				if strings.HasPrefix(s[i:], op) {
					out = append(out, tok{"op", op})
					i += len(op)
					matched = true
					break
				}
			}
			if !matched {
				out = append(out, tok{"op", string(c)})
				i++
			}
		}
	}
	out = append(out, tok{"eof", ""})
	return out, nil
}

func (l *lexer) peek() tok { return l.toks[l.p] }
func (l *lexer) next() tok  { t := l.toks[l.p]; l.p++; return t }
func (l *lexer) accept(kind, text string) bool {
	t := l.peek()
	if t.kind == kind && t.text == text {
		l.p++
		return true
	}
	return false
}
func (l *lexer) expect(kind, text string) error {
	if !l.accept(kind, text) {
		return fmt.Errorf("expected %q, got %q", text, l.peek().text)
	}
	return nil
}

// ---------- parser ----------

func parseExpr(s string) (Expr, error) {
	toks, err := lex(s)
	if err != nil {
		return nil, err
	}
	l := &lexer{toks: toks}
	e, err := l.parseTop()
	if err != nil {
		return nil, fmt.Errorf("%v in %q", err, s)
	}
	if l.peek().kind != "eof" {
		return nil, fmt.Errorf("trailing %q in %q", l.peek().text, s)
	}
	return e, nil
}

func (l *lexer) parseTop() (Expr, error) {
	t := l.peek()
	if t.kind == "id" && (t.text == "forall" || t.text == "exists") {
		l.next()
		q := &EQuant{Forall: t.text == "forall"}
		for {
			var names []string
			for {
				n := l.next()
				if n.kind != "id" {
					return nil, fmt.Errorf("quantifier: expected variable name, got %q", n.text)
				}
				names = append(names, n.text)
				// "i, j int" form
				if l.peek().kind == "op" && l.peek().text == "," {
					// lookahead: if after comma comes id followed by type start or comma, treat as name list
					save := l.p
					l.next()
					if l.peek().kind == "id" {
						nx := l.toks[l.p+1]
						if (nx.kind == "op" && (nx.text == "," || nx.text == "[" || nx.text == "*")) || nx.kind == "id" {
							continue
						}
					}
					l.p = save
				}
				break
			}
			ty, err := l.parseTypeText()
			if err != nil {
				return nil, err
			}
			for _, n := range names {
				q.Vars = append(q.Vars, QVar{Name: n, Type: ty})
			}
			if l.accept("op", ",") {
				continue
			}
			break
		}
		if err := l.expect("op", "::"); err != nil {
			return nil, err
		}
		body, err := l.parseTop()
		if err != nil {
			return nil, err
		}
		q.Body = body
		return q, nil
	}
	return l.parseBin(0)
}

func (l *lexer) parseTypeText() (string, error) {
	var b strings.Builder
	for {
		t := l.peek()
		if t.kind == "op" && (t.text == "[" || t.text == "]" || t.text == "*" || t.text == ".") {
			b.WriteString(t.text)
			l.next()
			continue
		}
		if t.kind == "id" {
			b.WriteString(t.text)
			l.next()
			if l.peek().kind == "op" && l.peek().text == "." {
				continue
			}
			break
		}
		return "", fmt.Errorf("bad type at %q", t.text)
	}
	return b.String(), nil
}

var binPrec = map[string]int{
	"<==>": 1, "==>": 2, "||": 3, "&&": 4,
	"==": 5, "!=": 5, "<": 5, "<=": 5, ">": 5, ">=": 5,
	"+": 6, "-": 6, "|": 6, "^": 6,
	"*": 7, "/": 7, "%": 7, "<<": 7, ">>": 7, "&": 7, "&^": 7,
}

func (l *lexer) parseBin(minPrec int) (Expr, error) {
	lhs, err := l.parseUnary()
	if err != nil {
		return nil, err
	}
	for {
		t := l.peek()
		if t.kind != "op" {
			break
		}
		if t.text == "?" && minPrec <= 0 {
			l.next()
			a, err := l.parseTop()
			if err != nil {
				return nil, err
			}
			if err := l.expect("op", ":"); err != nil {
				return nil, err
			}
			b, err := l.parseTop()
			if err != nil {
				return nil, err
			}
			lhs = &ECond{lhs, a, b}
			continue
		}
		p, ok := binPrec[t.text]
		if !ok || p < minPrec {
			break
		}
		l.next()
		var rhs Expr
		if t.text == "==>" {
			// right assoc; allow quantifier on rhs
			if pk := l.peek(); pk.kind == "id" && (pk.text == "forall" || pk.text == "exists") {
				rhs, err = l.parseTop()
			} else {
				rhs, err = l.parseBin(p)
			}
		} else {
			if pk := l.peek(); pk.kind == "id" && (pk.text == "forall" || pk.text == "exists") {
				rhs, err = l.parseTop()
			} else {
				rhs, err = l.parseBin(p + 1)
			}
		}
		if err != nil {
			return nil, err
		}
		lhs = &EBinary{Op: t.text, X: lhs, Y: rhs}
	}
	return lhs, nil
}

func (l *lexer) parseUnary() (Expr, error) {
	t := l.peek()
	if t.kind == "op" && (t.text == "!" || t.text == "-" || t.text == "^" || t.text == "*" || t.text == "&") {
		l.next()
		x, err := l.parseUnary()
		if err != nil {
			return nil, err
		}
		return &EUnary{Op: t.text, X: x}, nil
	}
	return l.parsePostfix()
}

func (l *lexer) parsePostfix() (Expr, error) {
	x, err := l.parsePrimary()
	if err != nil {
		return nil, err
	}
	for {
		t := l.peek()
		if t.kind != "op" {
			break
		}
		switch t.text {
		case "(":
			l.next()
			var args []Expr
			if !l.accept("op", ")") {
				for {
					a, err := l.parseTop()
					if err != nil {
						return nil, err
					}
					args = append(args, a)
					if l.accept("op", ",") {
						continue
					}
					if err := l.expect("op", ")"); err != nil {
						return nil, err
					}
					break
				}
			}
			if id, ok := x.(*EIdent); ok && id.Name == "old" && len(args) == 1 {
				x = &EOld{args[0]}
			} else {
				x = &ECall{Fun: x, Args: args}
			}
		case "[":
			l.next()
			var lo, hi Expr
			if l.accept("op", ":") {
				if !l.accept("op", "]") {
					hi, err = l.parseTop()
					if err != nil {
						return nil, err
					}
					if err := l.expect("op", "]"); err != nil {
						return nil, err
					}
				}
				x = &ESlice{X: x, Lo: nil, Hi: hi}
				continue
			}
			lo, err = l.parseTop()
			if err != nil {
				return nil, err
			}
			if l.accept("op", ":") {
				if !l.accept("op", "]") {
					hi, err = l.parseTop()
					if err != nil {
						return nil, err
					}
					if err := l.expect("op", "]"); err != nil {
						return nil, err
					}
				}
				x = &ESlice{X: x, Lo: lo, Hi: hi}
				continue
			}
			if err := l.expect("op", "]"); err != nil {
				return nil, err
			}
			x = &EIndex{X: x, I: lo}
		case ".":
			l.next()
			n := l.next()
			if n.kind != "id" {
				return nil, fmt.Errorf("selector: expected name")
			}
			x = &ESel{X: x, Name: n.text}
		default:
			return x, nil
		}
	}
	return x, nil
}

func (l *lexer) parsePrimary() (Expr, error) {
	t := l.next()
	switch t.kind {
	case "int":
		return &EInt{t.text}, nil
	case "str":
		return &EStr{t.text}, nil
	case "id":
		switch t.text {
		case "true":
			return &EBool{true}, nil
		case "false":
			return &EBool{false}, nil
		case "nil":
			return &ENil{}, nil
		}
		return &EIdent{t.text}, nil
	case "op":
		if t.text == "(" {
			e, err := l.parseTop()
			if err != nil {
				return nil, err
			}
			if err := l.expect("op", ")"); err != nil {
				return nil, err
			}
			return e, nil
		}
		if t.text == "[" {
			// type conversion like []byte(x) is not supported in specs
			return nil, fmt.Errorf("unexpected '['")
		}
	}
	return nil, fmt.Errorf("unexpected token %q", t.text)
}
