package main

import (
	"fmt"
	"go/token"
	"go/types"
	"sort"
	"strings"
	"sync"

	"golang.org/x/tools/go/ssa"
)

// Obligation is one proof goal: under the definitions in lines[:NLines], PC ⇒ Goal.
type Obligation struct {
	Name   string // f#kind.label
	Func   string
	Kind   string // post, pre, inv.init, inv.step, idx, slice, make, alloc, div, panic, nil, frame, dec, typeassert, lemma, vacuity
	PC     Term
	Goal   Term
	NLines int
	Pos    string
	Cover  bool // cover query: expected SAT (vacuity)
	Inputs []InputVar
	getv   []string
}

// InputVar describes a model value to extract for replay.
type InputVar struct {
	Name  string
	GoTy  types.Type
	Term  Term
	Extra map[string]Term
}

// Val is the symbolic value of an SSA value.
type Val struct {
	T       Term
	Tuple   []Val
	Clo     *Closure
	Cell    *cellKey // address of a register cell
	Builtin string
}

type Closure struct {
	Fn       *ssa.Function
	Bindings []Val
}

type cellKey struct {
	act   int
	alloc *ssa.Alloc
}

// State is the symbolic machine state on one path prefix.
type State struct {
	pc     Term
	cells  map[cellKey]Val
	heaps  map[string]Term // by element sort
	ctr    Term            // Int: allocation counter
	ghosts map[string]Term
	closedSeen map[string]bool
	symHeaps   *symHeapRec
}

type protectedLoc struct {
	loc   Term
	ty    types.Type
	alloc *ssa.Alloc // the non-escaping local this cell belongs to (nil for captured scalars)
}

// symHeapRec records the heap sorts read by the body of a defined spec function.
type symHeapRec struct{ sorts []string }

type sfDef struct {
	name      string
	heapSorts []string
}

func (s *State) clone() *State {
	n := &State{pc: s.pc, ctr: s.ctr, cells: make(map[cellKey]Val, len(s.cells)), heaps: make(map[string]Term, len(s.heaps)), ghosts: make(map[string]Term, len(s.ghosts)), closedSeen: make(map[string]bool, len(s.closedSeen))}
	n.symHeaps = s.symHeaps
	for k := range s.closedSeen {
		n.closedSeen[k] = true
	}
	for k, v := range s.cells {
		n.cells[k] = v
	}
	for k, v := range s.heaps {
		n.heaps[k] = v
	}
	for k, v := range s.ghosts {
		n.ghosts[k] = v
	}
	return n
}

type structInfo struct {
	sort   string
	st     *types.Struct
	ctor   string
	accs   []string
	fsorts []string
}

// Gen generates VCs for one top-level function (or lemma).
type Gen struct {
	eng       *Engine
	header    []string // sort/function declarations, axioms
	lines     []Line // path definitions
	declared  map[string]bool
	divSeen   map[string]bool
	nfresh    int
	obls      []*Obligation
	notes     map[string]int // assumptions relied upon (havoc calls etc.)
	structs   map[string]*structInfo
	byType    map[types.Type]string
	strConsts map[string]Term
	actN      int
	unbound   []string
	depth     int
	topKey    string
	cloTab    map[string]*Closure // Fn-sort term → closure
	sfAxioms  []sfAxiom           // definitional axioms of quantified spec functions
	localProt []protectedLoc     // cells of non-escaping locals (kept across calls)
	noopFns   map[string]bool     // Fn-sort terms known to have no program-visible effect (context cancel functions)
	axiomsIn  map[string]bool
	heapInit  map[string]Term
	curFnName string
	entrySt   *State // entry state of the top function
	stdUsed   map[string]bool
	trusted   map[string]bool
	allocBound *allocBound
	quantified bool
	specDepth  int
	absCache   map[string]Term
	hasHeavy   bool
	protected  []protectedLoc
	absHeaps   map[string]bool
	sfDefs     map[string]*sfDef
	noDefine   int
	callChain  string
	stores     map[string]storeInfo
	merges     map[string]mergeInfo
	selMemo    map[string]Term
	copies     map[string]copyInfo
	sliceMu    sync.Mutex
	ownerIdx   map[string][]int
	lineToks   [][]string
	sentinelNames []string
	assumedContracts map[string]bool
}

type allocBound struct {
	input Term // bv64: length of input
}

func newGen(e *Engine, topKey string) *Gen {
	return &Gen{eng: e, declared: map[string]bool{}, notes: map[string]int{}, structs: map[string]*structInfo{}, byType: map[types.Type]string{},
		strConsts: map[string]Term{}, topKey: topKey, cloTab: map[string]*Closure{}, noopFns: map[string]bool{}, axiomsIn: map[string]bool{}, heapInit: map[string]Term{}, stdUsed: map[string]bool{}, trusted: map[string]bool{}, assumedContracts: map[string]bool{}}
}

func (g *Gen) note(s string) { g.notes[s]++ }

func (g *Gen) fresh(prefix, sort string) Term {
	g.nfresh++
	name := fmt.Sprintf("%s_%d", prefix, g.nfresh)
	g.lines = append(g.lines, Line{Text: fmt.Sprintf("(declare-const %s %s)", name, sort), Owners: []string{name}})
	return T(sort, name)
}

func (g *Gen) define(prefix string, t Term) Term {
	if len(t.S) < 40 || g.noDefine > 0 {
		// under a quantifier binder terms may mention bound variables: never name them
		return t
	}
	g.nfresh++
	name := fmt.Sprintf("%s_%d", prefix, g.nfresh)
	g.lines = append(g.lines, Line{Text: fmt.Sprintf("(define-fun %s () %s %s)", name, t.Sort, t.S), Owners: []string{name}})
	defTable[name] = t.S
	g.recordAlias(name, t)
	return T(t.Sort, name)
}

// assertLine adds a global fact. With owners, the fact is a definitional constraint
// on those fresh symbols and is included in a query only when one of them is relevant.
func (g *Gen) assertLine(t Term, owners ...Term) {
	if t.S == "true" {
		return
	}
	ln := Line{Text: "(assert " + t.S + ")"}
	for _, o := range owners {
		ln.Owners = append(ln.Owners, o.S)
	}
	g.lines = append(g.lines, ln)
}

// Line is one declaration/definition/assertion with the symbols it defines.
type Line struct {
	Text   string
	Owners []string // empty: always included
	Heavy  bool     // unfolded library definition: may be omitted for a proof attempt
}

// assertHeavy adds a definitional constraint that abstract proof attempts may omit.
func (g *Gen) assertHeavy(t Term, owners ...Term) {
	g.assertLine(t, owners...)
	g.lines[len(g.lines)-1].Heavy = true
	g.hasHeavy = true
}

func (g *Gen) declareFun(name string, args []string, res string) {
	if g.declared[name] {
		return
	}
	g.declared[name] = true
	g.header = append(g.header, fmt.Sprintf("(declare-fun %s (%s) %s)", name, strings.Join(args, " "), res))
}

// assume strengthens the path condition.
func (g *Gen) assume(st *State, t Term) {
	if t.S == "true" {
		return
	}
	st.pc = g.define("pc", and(st.pc, t))
}

func (g *Gen) oblige(st *State, fn, kind, label string, goal Term, pos token.Pos) *Obligation {
	name := fn + "#" + kind
	if label != "" {
		name += "." + label
	}
	o := &Obligation{Name: name, Func: fn, Kind: kind, PC: st.pc, Goal: goal, NLines: len(g.lines), Pos: g.eng.pos(pos) + g.callChain}
	g.obls = append(g.obls, o)
	return o
}

// ---------- sorts ----------

func (g *Gen) sortOf(t types.Type) string {
	if s, ok := g.byType[t]; ok {
		return s
	}
	s := g.sortOf0(t)
	g.byType[t] = s
	return s
}

func (g *Gen) sortOf0(t types.Type) string {
	switch u := t.Underlying().(type) {
	case *types.Basic:
		switch {
		case u.Info()&types.IsBoolean != 0:
			return SBool
		case u.Info()&types.IsInteger != 0:
			return bvSort(intBits(u))
		case u.Info()&types.IsFloat != 0:
			return SF64
		case u.Info()&types.IsString != 0:
			return SSlice
		case u.Kind() == types.UnsafePointer:
			return SLoc
		case u.Kind() == types.UntypedNil:
			return SLoc
		}
		return SF64
	case *types.Pointer, *types.Map, *types.Chan:
		return SLoc
	case *types.Slice:
		return SSlice
	case *types.Signature:
		return SFn
	case *types.Interface:
		return SIface
	case *types.TypeParam:
		return SIface
	case *types.Array:
		return arraySort(bvSort(64), g.sortOf(u.Elem()))
	case *types.Struct:
		return g.structSort(t, u).sort
	case *types.Tuple:
		return "Tuple"
	}
	return SLoc
}

func intBits(b *types.Basic) int {
	switch b.Kind() {
	case types.Int8, types.Uint8:
		return 8
	case types.Int16, types.Uint16:
		return 16
	case types.Int32, types.Uint32:
		return 32
	case types.UntypedRune:
		return 32
	}
	return 64
}

func isSigned(t types.Type) bool {
	if b, ok := t.Underlying().(*types.Basic); ok {
		return b.Info()&types.IsUnsigned == 0 && b.Info()&types.IsInteger != 0
	}
	return false
}

func isInteger(t types.Type) bool {
	if b, ok := t.Underlying().(*types.Basic); ok {
		return b.Info()&types.IsInteger != 0
	}
	return false
}

func (g *Gen) structSort(t types.Type, st *types.Struct) *structInfo {
	name := ""
	if nt, ok := t.(*types.Named); ok {
		pkgPart := ""
		if nt.Obj().Pkg() != nil {
			pkgPart = strings.TrimPrefix(nt.Obj().Pkg().Path(), modPath+"/")
		}
		name = "S_" + mangle(pkgPart+"."+nt.Obj().Name())
		if nt.TypeArgs() != nil && nt.TypeArgs().Len() > 0 {
			name += mangle(types.TypeString(nt, nil))
		}
	} else if at, ok := t.(*types.Alias); ok {
		return g.structSort(types.Unalias(at), st)
	} else {
		name = "S_anon_" + mangle(st.String())
		if len(name) > 80 {
			name = fmt.Sprintf("S_anon_%d", len(g.structs))
		}
	}
	if si, ok := g.structs[name]; ok {
		return si
	}
	si := &structInfo{sort: name, st: st, ctor: "mk_" + name}
	g.structs[name] = si
	var fields []string
	for i := 0; i < st.NumFields(); i++ {
		fs := g.sortOf(st.Field(i).Type())
		acc := fmt.Sprintf("f%d_%s", i, name)
		si.accs = append(si.accs, acc)
		si.fsorts = append(si.fsorts, fs)
		fields = append(fields, fmt.Sprintf("(%s %s)", acc, fs))
	}
	g.header = append(g.header, fmt.Sprintf("(declare-datatypes ((%s 0)) (((%s %s))))", name, si.ctor, strings.Join(fields, " ")))
	return si
}

func (g *Gen) structInfoOf(t types.Type) *structInfo {
	st, ok := t.Underlying().(*types.Struct)
	if !ok {
		return nil
	}
	g.sortOf(t)
	return g.structSort(t, st)
}

func (g *Gen) mkStruct(si *structInfo, fields []Term) Term {
	if len(fields) == 0 {
		return T(si.sort, si.ctor)
	}
	return app(si.sort, si.ctor, fields...)
}

func (g *Gen) zero(t types.Type) Term {
	switch u := t.Underlying().(type) {
	case *types.Basic:
		switch {
		case u.Info()&types.IsBoolean != 0:
			return tFalse
		case u.Info()&types.IsInteger != 0:
			return bvConst(intBits(u), 0)
		case u.Info()&types.IsString != 0:
			return nilSlice
		case u.Info()&types.IsFloat != 0:
			g.declareConst("f64_zero", SF64)
			return T(SF64, "f64_zero")
		}
		return nilLoc
	case *types.Pointer, *types.Map, *types.Chan:
		return nilLoc
	case *types.Slice:
		return nilSlice
	case *types.Signature:
		return T(SFn, "nil_fn")
	case *types.Interface, *types.TypeParam:
		return nilIface
	case *types.Struct:
		si := g.structInfoOf(t)
		var fs []Term
		for i := 0; i < u.NumFields(); i++ {
			fs = append(fs, g.zero(u.Field(i).Type()))
		}
		return g.mkStruct(si, fs)
	case *types.Array:
		s := g.sortOf(t)
		return T(s, fmt.Sprintf("((as const %s) %s)", s, g.zero(u.Elem()).S))
	}
	return nilLoc
}

func (g *Gen) declareConst(name, sort string) {
	if g.declared[name] {
		return
	}
	g.declared[name] = true
	g.header = append(g.header, fmt.Sprintf("(declare-const %s %s)", name, sort))
}

// ---------- heap ----------

func (g *Gen) heap(st *State, sort string) Term {
	if h, ok := st.heaps[sort]; ok {
		return h
	}
	if st.symHeaps != nil {
		// body of a defined spec function: heaps are formal parameters
		es := sort
		switch sort {
		case "Held":
			es = SBool
		case "Avail":
			es = bvSort(64)
		}
		h := T(arraySort(SLoc, es), "Hp_"+mangle(sort))
		st.heaps[sort] = h
		dup := false
		for _, s := range st.symHeaps.sorts {
			if s == sort {
				dup = true
			}
		}
		if !dup {
			st.symHeaps.sorts = append(st.symHeaps.sorts, sort)
		}
		return h
	}
	// lazily create the initial heap for this sort (same for all states)
	h, ok := g.heapInit[sort]
	if !ok {
		name := "H0_" + mangle(sort)
		es := sort
		if sort == "Held" {
			es = SBool
		}
		if sort == "Avail" {
			es = bvSort(64)
		}
		g.declareConst(name, arraySort(SLoc, es))
		h = T(arraySort(SLoc, es), name)
		g.heapInit[sort] = h
	}
	st.heaps[sort] = h
	return h
}

// load reads a value of Go type t at location loc.
func (g *Gen) load(st *State, loc Term, t types.Type) Term {
	switch u := t.Underlying().(type) {
	case *types.Struct:
		si := g.structInfoOf(t)
		var fs []Term
		for i := 0; i < u.NumFields(); i++ {
			fs = append(fs, g.load(st, g.fldLoc(loc, t, i), u.Field(i).Type()))
		}
		return g.mkStruct(si, fs)
	case *types.Array:
		// build array value from heap: small arrays explicitly
		s := g.sortOf(t)
		if u.Len() <= 32 {
			arr := T(s, fmt.Sprintf("((as const %s) %s)", s, g.zero(u.Elem()).S))
			for i := int64(0); i < u.Len(); i++ {
				arr = sto(arr, bv64(uint64(i)), g.load(st, elemLoc(loc, bv64(uint64(i))), u.Elem()))
			}
			return arr
		}
		g.note("large array value load left unconstrained")
		return g.fresh("arrval", s)
	}
	s := g.sortOf(t)
	v := g.heapSelect(g.heap(st, s), loc)
	return v
}

func (g *Gen) fldLoc(obj Term, structT types.Type, i int) Term {
	return fldLoc(obj, g.fieldID(structT, i))
}

var fieldIDs = map[string]int{}

func (g *Gen) fieldID(structT types.Type, i int) int {
	key := fmt.Sprintf("%s#%d", g.sortOf(structT), i)
	if id, ok := fieldIDs[key]; ok {
		return id
	}
	id := len(fieldIDs) + 1
	fieldIDs[key] = id
	return id
}

func (g *Gen) store(st *State, loc Term, t types.Type, v Term) {
	switch u := t.Underlying().(type) {
	case *types.Struct:
		si := g.structInfoOf(t)
		for i := 0; i < u.NumFields(); i++ {
			g.store(st, g.fldLoc(loc, t, i), u.Field(i).Type(), app(si.fsorts[i], si.accs[i], v))
		}
		return
	case *types.Array:
		if u.Len() <= 32 {
			for i := int64(0); i < u.Len(); i++ {
				g.store(st, elemLoc(loc, bv64(uint64(i))), u.Elem(), sel(v, bv64(uint64(i))))
			}
			return
		}
		g.note("large array value store: element heap havocked")
		g.havocHeapSortsOf(st, u.Elem())
		return
	}
	s := g.sortOf(t)
	st.heaps[s] = g.heapStore(g.heap(st, s), loc, v)
	if len(st.heaps[s].S) > 400 {
		st.heaps[s] = g.define("H", st.heaps[s])
	}
}

func (g *Gen) leafSorts(t types.Type, out map[string]bool) {
	switch u := t.Underlying().(type) {
	case *types.Struct:
		for i := 0; i < u.NumFields(); i++ {
			g.leafSorts(u.Field(i).Type(), out)
		}
	case *types.Array:
		g.leafSorts(u.Elem(), out)
	default:
		out[g.sortOf(t)] = true
	}
}

func (g *Gen) havocHeapSortsOf(st *State, t types.Type) {
	m := map[string]bool{}
	g.leafSorts(t, m)
	for s := range m {
		g.havocHeap(st, s)
	}
}

func (g *Gen) havocHeap(st *State, sort string) {
	h := g.heap(st, sort)
	st.heaps[sort] = g.fresh("Hh", h.Sort)
}

func (g *Gen) havocAllHeaps(st *State) {
	// every heap sort known so far, including initial ones
	for s := range g.heapInit {
		g.heap(st, s)
	}
	// captured scalar variables of the closure under verification are not reachable
	// from the arguments of an unknown callee: their values survive (assumption, listed)
	var saved []Term
	for _, p := range g.protected {
		saved = append(saved, g.load(st, p.loc, p.ty))
	}
	defer func() {
		for i, p := range g.protected {
			g.store(st, p.loc, p.ty, saved[i])
		}
	}()
	var keys []string
	for s := range st.heaps {
		keys = append(keys, s)
	}
	sort.Strings(keys)
	for _, s := range keys {
		st.heaps[s] = g.fresh("Hh", st.heaps[s].Sort)
	}
	var gk []string
	for k := range st.ghosts {
		gk = append(gk, k)
	}
	sort.Strings(gk)
	for _, k := range gk {
		st.ghosts[k] = g.fresh("ghh", st.ghosts[k].Sort)
	}
}

// newObject allocates a fresh base location.
func (g *Gen) newObject(st *State, what string) Term {
	l := g.fresh("obj", SLoc)
	r := g.fresh("root", "Int")
	g.assertLine(and(app(SBool, ">", r, st.ctr), eq(app("Int", "root", l), r), eq(app("Int", "kind", l), T("Int", "0")), not(eq(l, nilLoc))), l, r)
	st.ctr = r
	return l
}

// closed asserts the closed-heap assumption for a value of type t obtained from
// outside (parameters, loads, call results): its locations were allocated before now.
func (g *Gen) closed(st *State, v Term, t types.Type) {
	if st.closedSeen == nil {
		st.closedSeen = map[string]bool{}
	}
	if st.closedSeen[v.S] {
		return
	}
	st.closedSeen[v.S] = true
	g.closed0(st, v, t)
}

func (g *Gen) closed0(st *State, v Term, t types.Type) {
	switch u := t.Underlying().(type) {
	case *types.Pointer, *types.Map, *types.Chan:
		g.assume(st, app(SBool, "<=", app("Int", "root", v), st.ctr))
	case *types.Slice:
		g.assume(st, and(app(SBool, "<=", app("Int", "root", sArr(v)), st.ctr),
			bvcmp("bvsle", bv64(0), sLen(v)), bvcmp("bvsle", sLen(v), sCap(v)),
			bvcmp("bvule", sCap(v), bv64(1<<40)), bvcmp("bvule", sOff(v), bv64(1<<40)),
			implies(eq(sArr(v), nilLoc), eq(sCap(v), bv64(0))),
			or(eq(sArr(v), nilLoc), app(SBool, ">=", app("Int", "root", sArr(v)), T("Int", "1")))))
	case *types.Basic:
		if u.Info()&types.IsString != 0 {
			g.assume(st, and(app(SBool, "<=", app("Int", "root", sArr(v)), st.ctr),
				bvcmp("bvsle", bv64(0), sLen(v)), bvcmp("bvule", sLen(v), bv64(1<<40)), bvcmp("bvule", sOff(v), bv64(1<<40)), eq(sCap(v), sLen(v))))
		}
	case *types.Interface:
		g.assume(st, app(SBool, "<=", app("Int", "root", app(SLoc, "iface_loc", v)), st.ctr))
	case *types.Struct:
		si := g.structInfoOf(t)
		for i := 0; i < u.NumFields(); i++ {
			switch u.Field(i).Type().Underlying().(type) {
			case *types.Pointer, *types.Map, *types.Chan, *types.Slice, *types.Basic, *types.Struct:
				g.closed(st, app(si.fsorts[i], si.accs[i], v), u.Field(i).Type())
			}
		}
	}
}

func (g *Gen) strConst(st *State, s string) Term {
	if t, ok := g.strConsts[s]; ok {
		return t
	}
	name := fmt.Sprintf("strc_%d", len(g.strConsts))
	g.declareConst(name, SLoc)
	loc := T(SLoc, name)
	g.header = append(g.header, fmt.Sprintf("(assert (and (= (root %s) (- 1)) (= (kind %s) 0) (not (= %s nil_loc))))", name, name, name))
	n := uint64(len(s))
	v := mkSlice(loc, bv64(0), bv64(n), bv64(n))
	if len(s) == 0 {
		v = nilSlice
	}
	g.strConsts[s] = v
	// contents in the initial byte heap (string memory is immutable; heap havocs of
	// the byte heap are followed by re-assertion, see reassertStrConsts)
	if len(s) <= 64 && len(s) > 0 {
		h := g.heap(st, bvSort(8))
		_ = h
		g.heapInitFacts(name, s)
	}
	return v
}

func (g *Gen) heapInitFacts(locName, s string) {
	h0 := g.heapInit[bvSort(8)]
	var cs []Term
	for i := 0; i < len(s); i++ {
		cs = append(cs, eq(sel(h0, elemLoc(T(SLoc, locName), bv64(uint64(i)))), bvConst(8, uint64(s[i]))))
	}
	g.header = append(g.header, "(assert "+and(cs...).S+")")
}

// sfAxiom is the definitional axiom of a spec function with a quantified body.
type sfAxiom struct {
	name  string   // spec function symbol (trigger "(name "), or empty
	trigs []string // other trigger substrings
	text  string
	light bool     // also part of the light proof attempt
}

// havocAllHeapsAtCall is havocAllHeaps for a call: the cells of locals whose address does
// not escape keep their values (they are unreachable from the callee).
func (g *Gen) havocAllHeapsAtCall(st *State) {
	var saved []Term
	for _, p := range g.localProt {
		saved = append(saved, g.define("lp", g.load(st, p.loc, p.ty)))
	}
	g.havocAllHeaps(st)
	for i, p := range g.localProt {
		g.store(st, p.loc, p.ty, saved[i])
	}
	if len(g.localProt) > 0 {
		g.trusted["locals whose address does not escape (go/ssa Alloc.Heap == false) keep their values across calls"] = true
	}
}
