package main

import (
	"go/types"
	"bytes"
	"context"
	"fmt"
	"os"
	"os/exec"
	"path/filepath"
	"sort"
	"strings"
	"sync"
	"time"
)

type Result struct {
	Obl      *Obligation
	Status   string // proved, refuted, noanswer, cover-ok, cover-fail
	Solver   string
	Ms       int64
	Model    map[string]string
	Raw      string
	Script   string
	SmallScope bool
	Candidate  map[string]string // model of the quantifier-free relaxation: to be confirmed by replay only
	CandSolver string
	CandRaw    string
}

func (g *Gen) script(o *Obligation, extra []string, getValues []string) string {
	return g.scriptMode(o, extra, getValues, false)
}

// scriptMode builds the query; with abstract=true the lines marked Heavy (unfolded
// library definitions) are omitted: an unsat answer is still a proof (fewer hypotheses).
func (g *Gen) scriptMode(o *Obligation, extra []string, getValues []string, abstract bool) string {
	var body strings.Builder
	for _, h := range g.header {
		body.WriteString(h)
		body.WriteString("\n")
	}
	gv := ""
	if len(getValues) > 0 {
		gv = "(get-value (" + strings.Join(getValues, " ") + "))\n"
	}
	goal := ""
	if o.Cover {
		goal = "(assert " + o.PC.S + ")\n"
	} else {
		goal = "(assert (not (=> " + o.PC.S + " " + o.Goal.S + ")))\n"
	}
	for _, l := range g.sliceLines(o.NLines, goal+gv+strings.Join(extra, "\n"), abstract) {
		body.WriteString(l)
		body.WriteString("\n")
	}
	for _, x := range extra {
		body.WriteString(x)
		body.WriteString("\n")
	}
	body.WriteString(goal)
	if len(g.sfAxioms) > 0 {
		// conditional axioms (definitions of quantified spec functions, ByteSeq theory):
		// only those reachable from the query
		sofar := body.String()
		used := make([]bool, len(g.sfAxioms))
		var ax strings.Builder
		for changed := true; changed; {
			changed = false
			for i, sa := range g.sfAxioms {
				if used[i] || (abstract && !sa.light) {
					continue
				}
				hit := false
				if sa.name != "" && (strings.Contains(sofar, "("+sa.name+" ") || strings.Contains(ax.String(), "("+sa.name+" ")) {
					hit = true
				}
				for _, tr := range sa.trigs {
					if strings.Contains(sofar, tr) || strings.Contains(ax.String(), tr) {
						hit = true
					}
				}
				if hit {
					used[i] = true
					changed = true
					ax.WriteString(sa.text)
					ax.WriteString("\n")
				}
			}
		}
		body.WriteString(ax.String())
	}
	bs := body.String()
	var b strings.Builder
	b.WriteString(prelude)
	if strings.Contains(bs, "(forall ") || strings.Contains(bs, "(exists ") {
		b.WriteString(memAxioms)
	}
	b.WriteString(bs)
	// ground instances of the memory axioms for every elem/fld term of the query
	// (omitted in the light proof attempt: fewer hypotheses, still a valid proof)
	if !abstract {
		for _, ax := range groundMemAxioms(bs + gv) {
			b.WriteString(ax)
			b.WriteString("\n")
		}
	}
	b.WriteString("(check-sat)\n")
	b.WriteString(gv)
	return b.String()
}

// sliceLines returns, in order, the lines among the first n that are needed by seed:
// declarations/definitions of symbols it mentions (transitively) plus the
// definitional constraints owned by those symbols, plus unowned facts.
func (g *Gen) sliceLines(n int, seed string, dropHeavy bool) []string {
	g.sliceMu.Lock()
	if g.ownerIdx == nil {
		g.ownerIdx = map[string][]int{}
		g.lineToks = make([][]string, len(g.lines))
		for i, ln := range g.lines {
			for _, o := range ln.Owners {
				g.ownerIdx[o] = append(g.ownerIdx[o], i)
			}
		}
		for i, ln := range g.lines {
			g.lineToks[i] = symbolTokens(ln.Text, g.ownerIdx)
		}
	}
	g.sliceMu.Unlock()
	include := make([]bool, n)
	relevant := map[string]bool{}
	var queue []string
	addSyms := func(toks []string) {
		for _, t := range toks {
			if !relevant[t] {
				relevant[t] = true
				queue = append(queue, t)
			}
		}
	}
	addSyms(symbolTokens(seed, g.ownerIdx))
	for i := 0; i < n; i++ {
		if len(g.lines[i].Owners) == 0 {
			include[i] = true
			addSyms(g.lineToks[i])
		}
	}
	for len(queue) > 0 {
		s := queue[len(queue)-1]
		queue = queue[:len(queue)-1]
		for _, i := range g.ownerIdx[s] {
			if dropHeavy && g.lines[i].Heavy {
				continue
			}
			if i < n && !include[i] {
				include[i] = true
				addSyms(g.lineToks[i])
			}
		}
	}
	var out []string
	for i := 0; i < n; i++ {
		if include[i] {
			out = append(out, g.lines[i].Text)
		}
	}
	return out
}

// symbolTokens extracts the generated symbols (those with an owner entry) from text.
func symbolTokens(text string, idx map[string][]int) []string {
	var out []string
	seen := map[string]bool{}
	i := 0
	for i < len(text) {
		c := text[i]
		if c == '_' || (c >= 'a' && c <= 'z') || (c >= 'A' && c <= 'Z') {
			j := i + 1
			for j < len(text) {
				d := text[j]
				if d == '_' || (d >= 'a' && d <= 'z') || (d >= 'A' && d <= 'Z') || (d >= '0' && d <= '9') {
					j++
				} else {
					break
				}
			}
			w := text[i:j]
			if _, ok := idx[w]; ok && !seen[w] {
				seen[w] = true
				out = append(out, w)
			}
			i = j
		} else {
			i++
		}
	}
	return out
}

// dropQuantified removes every top-level assertion that contains a quantifier.
func dropQuantified(script string) string {
	var b strings.Builder
	for _, ln := range strings.Split(script, "\n") {
		if strings.HasPrefix(ln, "(assert ") && (strings.Contains(ln, "(forall ") || strings.Contains(ln, "(exists ")) {
			// a dropped "copy" definition is replaced by "nothing changed", which keeps the
			// rest of memory (in particular the input bytes) consistent in candidate models
			if m := copyDefRe.FindStringSubmatch(ln); m != nil {
				b.WriteString("(assert (= " + m[1] + " " + m[2] + "))\n")
			}
			continue
		}
		b.WriteString(ln)
		b.WriteString("\n")
	}
	return b.String()
}

// scriptQuantified reports whether the obligation's query contains quantifiers.
func scriptQuantified(s string) bool {
	return strings.Contains(s, "(forall ") || strings.Contains(s, "(exists ")
}

// groundMemAxioms instantiates the elem/fld axioms for each closed elem/fld term in text.
func groundMemAxioms(text string) []string {
	seen := map[string]bool{}
	var out []string
	scan := func(prefix string) {
		idx := 0
		for {
			i := strings.Index(text[idx:], prefix)
			if i < 0 {
				break
			}
			start := idx + i
			depth := 0
			end := -1
			for j := start; j < len(text); j++ {
				if text[j] == '(' {
					depth++
				} else if text[j] == ')' {
					depth--
					if depth == 0 {
						end = j + 1
						break
					}
				}
			}
			idx = start + len(prefix)
			if end < 0 {
				break
			}
			t := text[start:end]
			if seen[t] {
				continue
			}
			seen[t] = true
			// skip terms with bound variables (heuristic: quantified variables are named l, a, i, o, k, h, s, x, y, t or q_*)
			parts := splitArgs(t)
			if len(parts) != 3 {
				continue
			}
			if hasBoundVar(parts[1]) || hasBoundVar(parts[2]) {
				continue
			}
			if prefix == "(elem " {
				out = append(out, fmt.Sprintf("(assert (and (= (elem_arr %s) %s) (= (elem_idx %s) %s) (= (kind %s) 2) (= (root %s) (root %s))))", t, parts[1], t, parts[2], t, t, parts[1]))
			} else {
				out = append(out, fmt.Sprintf("(assert (and (= (fld_obj %s) %s) (= (fld_id %s) %s) (= (kind %s) 1) (= (root %s) (root %s))))", t, parts[1], t, parts[2], t, t, parts[1]))
			}
		}
	}
	scan("(elem ")
	scan("(fld ")
	return out
}

var boundVarNames = map[string]bool{"l": true, "a": true, "i": true, "o": true, "k": true, "h": true, "s": true, "x": true, "y": true, "t": true}

func hasBoundVar(s string) bool {
	// tokenise on parens/spaces
	f := strings.FieldsFunc(s, func(r rune) bool { return r == '(' || r == ')' || r == ' ' })
	for _, w := range f {
		if boundVarNames[w] || strings.HasPrefix(w, "q_") || strings.HasPrefix(w, "sfp_") || strings.HasPrefix(w, "Hp_") {
			return true
		}
		// short lowercase identifiers (s1, h2, id, ...) are bound variables of axioms;
		// every generated constant has the form <prefix>_<number> or a longer name
		if len(w) <= 3 && w[0] >= 'a' && w[0] <= 'z' && !strings.Contains(w, "_") && !strings.HasPrefix(w, "bv") {
			return true
		}
	}
	return false
}

var thoroughTier bool
var solveSem = make(chan struct{}, 7)

type solverSpec struct {
	name string
	args func(file string, timeoutS int) []string
}

var solvers = []solverSpec{
	{"z3-new", func(f string, t int) []string { return []string{"z3-new", fmt.Sprintf("-T:%d", t), "-smt2", f} }},
	{"cvc5", func(f string, t int) []string { return []string{"cvc5", fmt.Sprintf("--tlimit=%d", t*1000), f} }},
	{"z3", func(f string, t int) []string { return []string{"z3", fmt.Sprintf("-T:%d", t), "-smt2", f} }},
	// NOTE: z3 5.1 with smt.bv.solver=2 (int-blasting) decided some linear index goals in
	// seconds but answered "unsat" on a satisfiable cover query of this code base
	// (kv.verifKeyWithTsRoundTrip#vacuity.exit): it is unsound here and must not be used.
}

// runSolvers races the portfolio on a script. wantModel: a sat answer is only accepted with output.
func runSolvers(script string, dir, tag string, timeoutS int, which []string) (status, solver, out string, ms int64) {
	file := filepath.Join(dir, tag+".smt2")
	if err := os.WriteFile(file, []byte(script), 0o644); err != nil {
		return "noanswer", "", err.Error(), 0
	}
	ctx, cancel := context.WithTimeout(context.Background(), time.Duration(timeoutS+2)*time.Second)
	defer cancel()
	type ans struct {
		status, solver, out string
		ms                  int64
	}
	ch := make(chan ans, len(solvers))
	n := 0
	for _, s := range solvers {
		use := false
		for _, w := range which {
			if w == s.name {
				use = true
			}
		}
		if !use {
			continue
		}
		n++
		go func(s solverSpec) {
			start := time.Now()
			argv := s.args(file, timeoutS)
			cmd := exec.CommandContext(ctx, argv[0], argv[1:]...)
			var buf bytes.Buffer
			cmd.Stdout = &buf
			cmd.Stderr = &buf
			_ = cmd.Run()
			o := buf.String()
			first := strings.TrimSpace(strings.SplitN(o, "\n", 2)[0])
			st := "noanswer"
			switch first {
			case "unsat":
				st = "unsat"
			case "sat":
				st = "sat"
			}
			if strings.HasPrefix(first, "(error") && !strings.Contains(first, "model is not available") {
				st = "error" // ill-formed query: a generator bug, never evidence about the code
			}
			ch <- ans{st, s.name, o, time.Since(start).Milliseconds()}
		}(s)
	}
	var last ans
	last.status = "noanswer"
	for i := 0; i < n; i++ {
		a := <-ch
		if a.status == "unsat" || a.status == "sat" {
			cancel()
			return a.status, a.solver, a.out, a.ms
		}
		if last.out == "" || a.solver == "z3-new" {
			last = a
		}
	}
	if last.status == "error" {
		return "error", last.solver, last.out, last.ms
	}
	return "noanswer", last.solver, last.out, last.ms
}

// prepareSolve does, sequentially, everything that touches the generator's (and the
// global) type tables, so that the parallel solving phase only reads.
func prepareSolve(g *Gen) {
	for _, o := range g.obls {
		if o.getv == nil {
			o.getv = inputValueTerms(g, o)
			if o.getv == nil {
				o.getv = []string{}
			}
		}
	}
	g.sliceLines(0, "", false)
}

// solveAll discharges the obligations of a generator in parallel.
func solveAll(g *Gen, dir string, timeoutS int, par int, tagPrefix string) []*Result {
	results := make([]*Result, len(g.obls))
	sem := solveSem
	var wg sync.WaitGroup
	var exitCovers []int
	for i, o := range g.obls {
		if o.Cover && strings.HasSuffix(o.Name, "#vacuity.exit") {
			exitCovers = append(exitCovers, i)
			continue
		}
		wg.Add(1)
		sem <- struct{}{}
		go func(i int, o *Obligation) {
			defer wg.Done()
			defer func() { <-sem }()
			results[i] = solveOne(g, o, dir, fmt.Sprintf("%s_%d", tagPrefix, i), timeoutS)
		}(i, o)
	}
	// exit covers: one reachable return site suffices; try them in order, stop at the first hit
	if len(exitCovers) > 0 {
		wg.Add(1)
		sem <- struct{}{}
		go func() {
			defer wg.Done()
			defer func() { <-sem }()
			done := false
			sort.SliceStable(exitCovers, func(x, y int) bool {
				return g.obls[exitCovers[x]].NLines < g.obls[exitCovers[y]].NLines
			})
			tried := 0
			for _, i := range exitCovers {
				if !done && tried >= 4 {
					results[i] = &Result{Obl: g.obls[i], Status: "cover-unknown", Solver: "-"}
					continue
				}
				tried++
				if done {
					results[i] = &Result{Obl: g.obls[i], Status: "cover-skipped", Solver: "-"}
					continue
				}
				ct := timeoutS / 2
				if ct < 15 {
					ct = 15
				}
				results[i] = solveOne(g, g.obls[i], dir, fmt.Sprintf("%s_%d", tagPrefix, i), ct)
				if results[i].Status == "cover-ok" {
					done = true
				}
			}
		}()
	}
	wg.Wait()
	return results
}

func solveOne(g *Gen, o *Obligation, dir, tag string, timeoutS int) *Result {
	r := &Result{Obl: o}
	// trivial cases
	if !o.Cover && (o.Goal.S == "true" || o.PC.S == "false") {
		r.Status = "proved"
		r.Solver = "trivial"
		return r
	}
	getv := o.getv
	script := g.script(o, nil, getv)
	r.Script = script
	if len(script) > 4<<20 {
		r.Status = "noanswer"
		r.Raw = "VC larger than 4 MiB: split the function or add a callee contract"
		return r
	}
	// stage 0: abstract attempt without the unfolded library definitions (proof only)
	// (also without the ground memory axioms); an unsat answer is a proof since the
	// query only has fewer hypotheses.
	abs := ""
	if !o.Cover {
		abs = g.scriptMode(o, nil, nil, true)
		if len(abs) < len(script) {
			as, asolver, aout, ams := runSolvers(abs, dir, tag+"_abs", 4, []string{"z3-new"})
			r.Ms += ams
			if as == "unsat" {
				r.Status, r.Solver, r.Raw = "proved", asolver+"(light)", aout
				return r
			}
		} else {
			abs = ""
		}
	}
	// stage 1: z3-new alone, short limit
	status, solver, out, ms := runSolvers(script, dir, tag, 3, []string{"z3-new"})
	ms += r.Ms
	if status == "error" {
		r.Status, r.Solver, r.Ms, r.Raw = "engine-error", solver, ms, out
		return r
	}
	// stage 2: race the full query (z3-new, cvc5) against the light one (z3-new) for the
	// whole limit; unsat from any of them proves, sat is accepted from the full query only
	if status == "noanswer" && !o.Cover {
		type ans struct {
			status, solver, out string
			ms                  int64
		}
		ch := make(chan ans, 2)
		n := 1
		go func() {
			which := []string{"z3-new", "cvc5"}
			if !scriptQuantified(script) && thoroughTier {
				which = append(which, "z3")
			}
			s, sv, so, m := runSolvers(script, dir, tag, timeoutS, which)
			ch <- ans{s, sv, so, m}
		}()
		if abs != "" {
			n++
			go func() {
				s, sv, so, m := runSolvers(abs, dir, tag+"_abs", timeoutS, []string{"z3-new", "cvc5"})
				if s != "unsat" {
					s = "noanswer" // a model of the weakened query means nothing
				} else {
					sv += "(light)"
				}
				ch <- ans{s, sv, so, m}
			}()
		}
		for i := 0; i < n; i++ {
			a := <-ch
			if a.ms > ms {
				ms = a.ms
			}
			if a.status == "unsat" || a.status == "sat" || a.status == "error" {
				status, solver, out = a.status, a.solver, a.out
				break
			}
		}
		if status == "error" {
			r.Status, r.Solver, r.Ms, r.Raw = "engine-error", solver, ms, out
			return r
		}
	}
	r.Solver, r.Ms, r.Raw = solver, ms, out
	if o.Cover {
		switch status {
		case "sat":
			r.Status = "cover-ok"
		case "unsat":
			r.Status = "cover-fail"
		default:
			// Concrete probe: a cover only needs one witness; fixing the scalar inputs to zero
			// turns the unfolded library definitions into constants.
			if zp := zeroProbe(o); len(zp) > 0 {
				zs, zsv, zso, zms := runSolvers(g.script(o, zp, nil), dir, tag+"_zero", timeoutS/2+1, []string{"z3-new"})
				r.Ms += zms
				if zs == "sat" {
					r.Status, r.Solver, r.Raw = "cover-ok", zsv+"(zero-inputs)", zso
					return r
				}
			}
			// Reachability sanity check with the quantified facts dropped: unsat here is a
			// definite vacuity; sat is accepted as "reachable" (the dropped facts are
			// definitional axioms; the check is a sanity check, not part of any proof).
			ss, sv, so, sms := runSolvers(dropQuantified(g.script(o, smallScope(g, o, 16), nil)), dir, tag+"_qf", timeoutS/2+1, []string{"z3-new"})
			r.Ms += sms
			switch ss {
			case "sat":
				r.Status, r.Solver, r.Raw, r.SmallScope = "cover-ok", sv+"(qf-relaxed)", so, true
				// the quantified facts get a bounded second chance to show a contradiction
				extra := timeoutS / 3
				if extra > 8 {
					extra = 8
				}
				fs, fsv, fso, fms := runSolvers(script, dir, tag, extra, []string{"z3-new", "cvc5"})
				r.Ms += fms
				if fs == "unsat" {
					r.Status, r.Solver, r.Raw, r.SmallScope = "cover-fail", fsv, fso, false
				} else if fs == "sat" {
					r.Solver, r.SmallScope = fsv, false
				}
			case "unsat":
				r.Status, r.Solver, r.Raw = "cover-fail", sv, so
			default:
				r.Status = "cover-unknown"
			}
		}
		return r
	}
	switch status {
	case "unsat":
		r.Status = "proved"
	case "sat":
		r.Status = "refuted"
		r.Model = parseModel(out, getv)
		// shrink: prefer a model with small inputs (renderable for replay)
		for _, bound := range []int{12, 24, 48} {
			ss, sv, so, sms := runSolvers(g.script(o, smallScope(g, o, bound), getv), dir, fmt.Sprintf("%s_sh%d", tag, bound), 5, []string{"z3-new"})
			r.Ms += sms
			if ss == "sat" {
				r.Solver, r.Raw, r.SmallScope = sv, so, true
				r.Model = parseModel(so, getv)
				break
			}
		}
	default:
		r.Status = "noanswer"
		// small-scope refutation attempt
		for _, bound := range []int{12, 24} {
			ss, sv, so, sms := runSolvers(g.script(o, smallScope(g, o, bound), getv), dir, fmt.Sprintf("%s_ss%d", tag, bound), timeoutS/2+1, []string{"z3-new"})
			r.Ms += sms
			if ss == "sat" {
				r.Status, r.Solver, r.Raw, r.SmallScope = "refuted", sv, so, true
				r.Model = parseModel(so, getv)
				break
			}
		}
		// last resort: a model of the query with its quantified facts dropped is only a
		// CANDIDATE input; it counts for nothing unless the replay on the real code fails
		if r.Status == "noanswer" && len(getv) > 0 {
			for _, bound := range []int{16, 48} {
				ss, sv, so, sms := runSolvers(dropQuantified(g.script(o, smallScope(g, o, bound), getv)), dir, fmt.Sprintf("%s_cand%d", tag, bound), 8, []string{"z3-new"})
				r.Ms += sms
				if ss == "sat" {
					r.Candidate, r.CandSolver, r.CandRaw = parseModel(so, getv), sv, so
					break
				}
			}
		}
	}
	return r
}

// smallScope constrains input sizes to find a model quickly. Any model of the
// constrained query is a model of the original: sound for refutation only.
// zeroProbe fixes every bit-vector input to zero (a candidate witness for cover queries).
func zeroProbe(o *Obligation) []string {
	var out []string
	for _, in := range o.Inputs {
		var w int
		if n, _ := fmt.Sscanf(in.Term.Sort, "(_ BitVec %d)", &w); n == 1 && w > 0 && w%4 == 0 {
			out = append(out, fmt.Sprintf("(assert (= %s #x%s))", in.Term.S, strings.Repeat("0", w/4)))
			continue
		}
		// struct value: its integer fields
		if st, ok := in.GoTy.Underlying().(*types.Struct); ok && strings.HasPrefix(in.Term.Sort, "S_") {
			for i := 0; i < st.NumFields(); i++ {
				if b, ok := st.Field(i).Type().Underlying().(*types.Basic); ok && b.Info()&types.IsInteger != 0 {
					bits := map[types.BasicKind]int{types.Int8: 8, types.Uint8: 8, types.Int16: 16, types.Uint16: 16, types.Int32: 32, types.Uint32: 32}[b.Kind()]
					if bits == 0 {
						bits = 64
					}
					out = append(out, fmt.Sprintf("(assert (= (f%d_%s %s) #x%s))", i, in.Term.Sort, in.Term.S, strings.Repeat("0", bits/4)))
				}
			}
		}
	}
	return out
}

func smallScope(g *Gen, o *Obligation, bound int) []string {
	var out []string
	for _, in := range o.Inputs {
		if in.Term.Sort == SSlice {
			out = append(out, fmt.Sprintf("(assert (bvule (s_len %s) #x%016x))", in.Term.S, bound))
		}
	}
	return out
}

// inputValueTerms lists terms whose model values are needed for replay.
func inputValueTerms(g *Gen, o *Obligation) []string {
	var out []string
	for _, in := range o.Inputs {
		out = append(out, modelTermsFor(g, in.Term, in.GoTy, 0)...)
	}
	return out
}

func parseModel(out string, terms []string) map[string]string {
	m := map[string]string{}
	idx := strings.Index(out, "\n")
	if idx < 0 {
		return m
	}
	body := strings.TrimSpace(out[idx+1:])
	// body is "((t1 v1) (t2 v2) ...)" possibly over several lines
	if !strings.HasPrefix(body, "(") {
		return m
	}
	pairs := splitArgs(strings.Join(strings.Fields(body), " "))
	for _, p := range pairs {
		kv := splitArgs(p)
		if len(kv) == 2 {
			m[kv[0]] = kv[1]
		}
	}
	// splitArgs treats first element as function name; handle generally
	if len(m) == 0 {
		flat := strings.Join(strings.Fields(body), " ")
		// manual scan of top-level pairs
		depth := 0
		start := -1
		for i := 0; i < len(flat); i++ {
			switch flat[i] {
			case '(':
				depth++
				if depth == 2 {
					start = i
				}
			case ')':
				if depth == 2 && start >= 0 {
					kv := splitArgs(flat[start : i+1])
					if len(kv) == 2 {
						m[kv[0]] = kv[1]
					}
					start = -1
				}
				depth--
			}
		}
	}
	return m
}
