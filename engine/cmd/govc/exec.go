package main

import (
	"fmt"
	"go/constant"
	"go/token"
	"go/types"
	"sort"
	"strings"

	"golang.org/x/tools/go/ssa"
)

type Activation struct {
	g       *Gen
	fn      *ssa.Function
	id      int
	env     map[ssa.Value]Val
	spec    *FuncSpec
	top     bool
	entry   *State // snapshot at entry (for old())
	params  map[string]Val
	rets    []retRec
	defers  []*ssa.Defer
	name    string // obligation prefix
	regCell map[*ssa.Alloc]bool
	safety  map[string]bool
	counter map[string]int
	loops   map[*ssa.BasicBlock]*loopInfo
	loopOrd map[*ssa.BasicBlock]int
	results []string // named result names
	depth   int
	iters   map[ssa.Value]*rangeIter
	pseudo  map[string]*ssa.Alloc
	frameOwner  *Activation
	frameLocs   []Term
	frameRanges []frameRangeT
	specVars    map[string]SVal
	loopRT      map[*loopInfo]*loopRuntime
	liveCounters map[*loopInfo]map[cellKey]bool
}

type retRec struct {
	st     *State
	vals   []Val
	pos    token.Pos
	nlines int
}

type loopInfo struct {
	header *ssa.BasicBlock
	blocks map[*ssa.BasicBlock]bool
	ord    int
}

func (g *Gen) newActivation(fn *ssa.Function, top bool, depth int) *Activation {
	g.actN++
	a := &Activation{g: g, fn: fn, id: g.actN, env: map[ssa.Value]Val{}, top: top, params: map[string]Val{}, regCell: map[*ssa.Alloc]bool{},
		counter: map[string]int{}, loops: map[*ssa.BasicBlock]*loopInfo{}, loopOrd: map[*ssa.BasicBlock]int{}, depth: depth}
	if fn.Pkg != nil {
		a.spec = g.eng.specs.funcs[funcKey(fn)]
	}
	a.name = funcRelName(fn)
	if fn.Pkg != nil {
		a.name = shortPkg(fn.Pkg.Pkg.Path()) + "." + a.name
	}
	for _, b := range fn.Blocks {
		for _, ins := range b.Instrs {
			if al, ok := ins.(*ssa.Alloc); ok {
				a.regCell[al] = isRegCell(al)
			}
		}
	}
	a.findLoops()
	return a
}

func shortPkg(p string) string {
	p = strings.TrimPrefix(p, modPath)
	p = strings.TrimPrefix(p, "/")
	if p == "" {
		return "NoKV"
	}
	return p
}

func isRegCell(a *ssa.Alloc) bool {
	if a.Referrers() == nil {
		return false
	}
	switch a.Type().(*types.Pointer).Elem().Underlying().(type) {
	case *types.Array:
		return false
	}
	for _, r := range *a.Referrers() {
		switch r := r.(type) {
		case *ssa.Store:
			if r.Addr != a || r.Val == a {
				return false
			}
		case *ssa.UnOp:
			if r.Op != token.MUL {
				return false
			}
		case *ssa.DebugRef:
		default:
			return false
		}
	}
	return true
}

// findLoops identifies natural loops via back edges (target dominates source).
func (a *Activation) findLoops() {
	fn := a.fn
	var headers []*ssa.BasicBlock
	for _, b := range fn.Blocks {
		for _, s := range b.Succs {
			if s.Dominates(b) {
				li := a.loops[s]
				if li == nil {
					li = &loopInfo{header: s, blocks: map[*ssa.BasicBlock]bool{s: true}}
					a.loops[s] = li
					headers = append(headers, s)
				}
				// collect natural loop body
				var stack []*ssa.BasicBlock
				if !li.blocks[b] {
					li.blocks[b] = true
					stack = append(stack, b)
				}
				for len(stack) > 0 {
					x := stack[len(stack)-1]
					stack = stack[:len(stack)-1]
					for _, p := range x.Preds {
						if !li.blocks[p] {
							li.blocks[p] = true
							stack = append(stack, p)
						}
					}
				}
			}
		}
	}
	// order loops by source position of the header's first positioned instruction, fallback block index
	sort.SliceStable(headers, func(i, j int) bool {
		pi, pj := a.loopPos(headers[i]), a.loopPos(headers[j])
		if pi != pj && pi.IsValid() && pj.IsValid() {
			return pi < pj
		}
		return headers[i].Index < headers[j].Index
	})
	for i, h := range headers {
		a.loops[h].ord = i + 1
		a.loopOrd[h] = i + 1
	}
}

func (a *Activation) loopPos(h *ssa.BasicBlock) token.Pos {
	// smallest valid position among instructions of the loop
	best := token.NoPos
	for b := range a.loops[h].blocks {
		for _, ins := range b.Instrs {
			if p := ins.Pos(); p.IsValid() && (!best.IsValid() || p < best) {
				best = p
			}
		}
	}
	return best
}

func (a *Activation) ord(kind string) int {
	a.counter[kind]++
	return a.counter[kind]
}

// val returns the symbolic value of an SSA value.
func (a *Activation) val(st *State, v ssa.Value) Val {
	switch v := v.(type) {
	case *ssa.Const:
		return a.constVal(st, v)
	case *ssa.Global:
		return Val{T: a.g.globalLoc(v)}
	case *ssa.Function:
		return Val{Clo: &Closure{Fn: v}, T: a.g.fnTerm(&Closure{Fn: v})}
	case *ssa.Builtin:
		return Val{Builtin: v.Name()}
	}
	if x, ok := a.env[v]; ok {
		return x
	}
	// unknown (e.g. value defined in an unprocessed block): unconstrained
	a.g.note("value used before definition treated as unconstrained: " + v.Name())
	t := a.g.fresh("undef", a.g.sortOf(v.Type()))
	x := Val{T: t}
	a.env[v] = x
	return x
}

func (g *Gen) fnTerm(c *Closure) Term {
	name := "fn_" + mangle(c.Fn.String())
	if len(c.Bindings) > 0 {
		g.nfresh++
		name = fmt.Sprintf("%s_%d", name, g.nfresh)
	}
	g.declareConst(name, SFn)
	g.cloTab[name] = c
	return T(SFn, name)
}

func (g *Gen) globalLoc(v *ssa.Global) Term {
	name := "glob_" + mangle(v.Pkg.Pkg.Path()+"."+v.Name())
	if !g.declared[name] {
		g.declareConst(name, SLoc)
		g.header = append(g.header, fmt.Sprintf("(assert (and (= (root %s) 0) (= (kind %s) 0) (not (= %s nil_loc))))", name, name, name))
		// error sentinels: package-level vars of interface type error are assumed initialised to distinct non-nil constants
		if types.Identical(v.Type().(*types.Pointer).Elem(), types.Universe.Lookup("error").Type()) {
			s := "errc_" + mangle(v.Pkg.Pkg.Path()+"."+v.Name())
			g.declareConst(s, SIface)
			g.header = append(g.header, fmt.Sprintf("(assert (not (= %s nil_iface)))", s))
			g.sentinelNames = append(g.sentinelNames, s)
		}
	}
	return T(SLoc, name)
}

type sentinel struct {
	loc Term
	val Term
}

func (a *Activation) constVal(st *State, c *ssa.Const) Val {
	g := a.g
	t := c.Type()
	if c.Value == nil {
		return Val{T: g.zero(t)}
	}
	switch u := t.Underlying().(type) {
	case *types.Basic:
		switch {
		case u.Info()&types.IsBoolean != 0:
			if constant.BoolVal(c.Value) {
				return Val{T: tTrue}
			}
			return Val{T: tFalse}
		case u.Info()&types.IsInteger != 0:
			bits := intBits(u)
			if i, ok := constant.Int64Val(constant.ToInt(c.Value)); ok {
				return Val{T: bvConst(bits, uint64(i))}
			}
			if ui, ok := constant.Uint64Val(constant.ToInt(c.Value)); ok {
				return Val{T: bvConst(bits, ui)}
			}
		case u.Info()&types.IsString != 0:
			return Val{T: g.strConst(st, constant.StringVal(c.Value))}
		case u.Info()&types.IsFloat != 0:
			name := "fc_" + mangle(c.Value.ExactString())
			g.declareConst(name, SF64)
			return Val{T: T(SF64, name)}
		}
	}
	g.note("unsupported constant " + c.String())
	return Val{T: g.fresh("const", g.sortOf(t))}
}

// ---------- running a function body ----------

type edgeKey struct{ from, to int }

// run symbolically executes the activation's function from state st with params bound.
// Returns the merged exit state and result values (nil state if no normal exit).
func (a *Activation) run(st *State) {
	fn := a.fn
	g := a.g
	if len(fn.Blocks) == 0 {
		return
	}
	// topological order ignoring back edges
	order := topoOrder(fn)
	edges := map[edgeKey]*State{}
	var entrySt *State = st
	for _, b := range order {
		var in *State
		if b == fn.Blocks[0] {
			in = entrySt
		} else {
			var preds []*State
			var predBlocks []*ssa.BasicBlock
			for _, p := range b.Preds {
				if b.Dominates(p) {
					continue // back edge
				}
				if s, ok := edges[edgeKey{p.Index, b.Index}]; ok {
					preds = append(preds, s)
					predBlocks = append(predBlocks, p)
					delete(edges, edgeKey{p.Index, b.Index})
				}
			}
			if len(preds) == 0 {
				continue
			}
			in = a.merge(preds, predBlocks, b)
		}
		if li := a.loops[b]; li != nil {
			a.enterLoop(in, li)
		}
		// instructions
		cur := in
		terminated := false
		for _, ins := range b.Instrs {
			if cur.pc.S == "false" {
				terminated = true
				break
			}
			switch ins := ins.(type) {
			case *ssa.Phi:
				// handled in merge
			case *ssa.If:
				c := a.val(cur, ins.Cond).T
				ts := cur.clone()
				g.assume(ts, c)
				fs := cur
				g.assume(fs, not(c))
				a.flow(edges, b, b.Succs[0], ts)
				a.flow(edges, b, b.Succs[1], fs)
				terminated = true
			case *ssa.Jump:
				a.flow(edges, b, b.Succs[0], cur)
				terminated = true
			case *ssa.Return:
				var vals []Val
				for _, r := range ins.Results {
					vals = append(vals, a.val(cur, r))
				}
				a.rets = append(a.rets, retRec{st: cur, vals: vals, pos: ins.Pos(), nlines: len(g.lines)})
				terminated = true
			case *ssa.Panic:
				if a.safetyOn("panic") {
					g.oblige(cur, a.name, "panic", fmt.Sprint(a.ord("panic")), tFalse, ins.Pos())
				}
				terminated = true
			default:
				a.step(cur, ins)
			}
			if terminated {
				break
			}
		}
	}
}

func (a *Activation) flow(edges map[edgeKey]*State, from, to *ssa.BasicBlock, st *State) {
	if to.Dominates(from) {
		// back edge: check invariants, stop
		if li := a.loops[to]; li != nil {
			a.backEdge(st, li, from)
		}
		return
	}
	edges[edgeKey{from.Index, to.Index}] = st
}

func topoOrder(fn *ssa.Function) []*ssa.BasicBlock {
	visited := map[*ssa.BasicBlock]bool{}
	var post []*ssa.BasicBlock
	var dfs func(b *ssa.BasicBlock)
	dfs = func(b *ssa.BasicBlock) {
		visited[b] = true
		// visit successors last-to-first so that Succs[0] (then-branch, often an early
		// return) comes first in the reverse postorder
		for i := len(b.Succs) - 1; i >= 0; i-- {
			s := b.Succs[i]
			if s.Dominates(b) {
				continue
			}
			if !visited[s] {
				dfs(s)
			}
		}
		post = append(post, b)
	}
	dfs(fn.Blocks[0])
	for i, j := 0, len(post)-1; i < j; i, j = i+1, j-1 {
		post[i], post[j] = post[j], post[i]
	}
	return post
}

// merge joins predecessor states at block b, also resolving phis.
func (a *Activation) merge(preds []*State, predBlocks []*ssa.BasicBlock, b *ssa.BasicBlock) *State {
	g := a.g
	if len(preds) == 1 {
		st := preds[0]
		a.resolvePhis(b, predBlocks, preds, st)
		return st
	}
	out := &State{cells: map[cellKey]Val{}, heaps: map[string]Term{}, ghosts: map[string]Term{}, closedSeen: map[string]bool{}, symHeaps: preds[0].symHeaps}
	for k := range preds[0].closedSeen {
		all := true
		for _, p := range preds[1:] {
			if !p.closedSeen[k] {
				all = false
				break
			}
		}
		if all {
			out.closedSeen[k] = true
		}
	}
	var pcs []Term
	for _, p := range preds {
		pcs = append(pcs, p.pc)
	}
	out.pc = g.define("pc", or(pcs...))
	// cells
	keys := map[cellKey]bool{}
	for _, p := range preds {
		for k := range p.cells {
			keys[k] = true
		}
	}
	var klist []cellKey
	for k := range keys {
		klist = append(klist, k)
	}
	sort.Slice(klist, func(i, j int) bool {
		if klist[i].act != klist[j].act {
			return klist[i].act < klist[j].act
		}
		return klist[i].alloc.Pos() < klist[j].alloc.Pos() || (klist[i].alloc.Pos() == klist[j].alloc.Pos() && klist[i].alloc.Name() < klist[j].alloc.Name())
	})
	for _, k := range klist {
		var vs []Val
		all := true
		for _, p := range preds {
			v, ok := p.cells[k]
			if !ok {
				all = false
				break
			}
			vs = append(vs, v)
		}
		if !all {
			continue
		}
		out.cells[k] = a.mergeVals(vs, preds, "c_"+mangleShort(k.alloc.Comment))
	}
	hs := map[string]bool{}
	for _, p := range preds {
		for s := range p.heaps {
			hs[s] = true
		}
	}
	var hl []string
	for s := range hs {
		hl = append(hl, s)
	}
	sort.Strings(hl)
	for _, s := range hl {
		var ts []Term
		for _, p := range preds {
			ts = append(ts, g.heap(p, s))
		}
		out.heaps[s] = a.mergeTerms(ts, preds, "Hm")
	}
	gs := map[string]bool{}
	for _, p := range preds {
		for s := range p.ghosts {
			gs[s] = true
		}
	}
	var gl []string
	for s := range gs {
		gl = append(gl, s)
	}
	sort.Strings(gl)
	for _, s := range gl {
		var ts []Term
		ok := true
		for _, p := range preds {
			t, has := p.ghosts[s]
			if !has {
				ok = false
				break
			}
			ts = append(ts, t)
		}
		if ok {
			out.ghosts[s] = a.mergeTerms(ts, preds, "gh")
		}
	}
	var cs []Term
	for _, p := range preds {
		cs = append(cs, p.ctr)
	}
	out.ctr = a.mergeTerms(cs, preds, "ctr")
	a.resolvePhis(b, predBlocks, preds, out)
	return out
}

func mangleShort(s string) string {
	m := mangle(s)
	if len(m) > 24 {
		m = m[:24]
	}
	return m
}

func (a *Activation) mergeTerms(ts []Term, preds []*State, prefix string) Term {
	same := true
	for _, t := range ts[1:] {
		if t.S != ts[0].S {
			same = false
			break
		}
	}
	if same {
		return ts[0]
	}
	g := a.g
	// path conditions of the predecessors are mutually exclusive: an ite chain is exact
	v := ts[len(ts)-1]
	var conds []Term
	for i := 0; i < len(ts)-1; i++ {
		conds = append(conds, preds[i].pc)
	}
	for i := len(ts) - 2; i >= 0; i-- {
		v = ite(preds[i].pc, ts[i], v)
	}
	if strings.HasPrefix(v.Sort, "(Array Loc ") {
		if g.merges == nil {
			g.merges = map[string]mergeInfo{}
		}
		g.merges[v.S] = mergeInfo{conds: conds, terms: ts}
	}
	return g.define(prefix, v)
}

func (a *Activation) mergeVals(vs []Val, preds []*State, prefix string) Val {
	// closures / cells: keep only if identical
	if vs[0].Tuple != nil {
		var out Val
		for i := range vs[0].Tuple {
			var col []Val
			for _, v := range vs {
				col = append(col, v.Tuple[i])
			}
			out.Tuple = append(out.Tuple, a.mergeVals(col, preds, prefix))
		}
		return out
	}
	var ts []Term
	for _, v := range vs {
		ts = append(ts, v.T)
	}
	out := Val{T: a.mergeTerms(ts, preds, prefix)}
	sameClo := true
	for _, v := range vs[1:] {
		if v.Clo != vs[0].Clo || v.Cell != vs[0].Cell {
			sameClo = false
		}
	}
	if sameClo {
		out.Clo = vs[0].Clo
		out.Cell = vs[0].Cell
	}
	return out
}

func (a *Activation) resolvePhis(b *ssa.BasicBlock, predBlocks []*ssa.BasicBlock, preds []*State, out *State) {
	for _, ins := range b.Instrs {
		phi, ok := ins.(*ssa.Phi)
		if !ok {
			break
		}
		var vs []Val
		for i, pb := range predBlocks {
			// find index of pb among b.Preds
			for j, p := range b.Preds {
				if p == pb {
					vs = append(vs, a.val(preds[i], phi.Edges[j]))
					break
				}
			}
		}
		if len(vs) == 0 {
			continue
		}
		if len(vs) == 1 {
			a.env[phi] = vs[0]
		} else {
			a.env[phi] = a.mergeVals(vs, preds, "phi")
		}
	}
}

func (a *Activation) safetyOn(kind string) bool {
	if a.safety != nil {
		return a.safety[kind]
	}
	return false
}

// sentinel returns the constant standing for a package-level error variable.
func (a *Activation) sentinel(pkgPath, name string) Term {
	g := a.g
	if sp := g.eng.ssaPkg[pkgPath]; sp != nil {
		if gl := sp.Var(name); gl != nil {
			g.globalLoc(gl)
			return T(SIface, "errc_"+mangle(pkgPath+"."+name))
		}
	}
	s := "errc_" + mangle(pkgPath+"."+name)
	g.declareConst(s, SIface)
	return T(SIface, s)
}
