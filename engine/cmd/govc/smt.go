package main

import (
	"fmt"
	"strings"
)

// Term is an SMT-LIB term with its sort.
type Term struct {
	S    string
	Sort string
}

const (
	SBool  = "Bool"
	SLoc   = "Loc"
	SSlice = "Slice"
	SIface = "Iface"
	SF64   = "F64"
	SFn    = "Fn"
	SBSeq  = "ByteSeq"
)

func bvSort(n int) string { return fmt.Sprintf("(_ BitVec %d)", n) }

func isBV(s string) (int, bool) {
	var n int
	if _, err := fmt.Sscanf(s, "(_ BitVec %d)", &n); err == nil {
		return n, true
	}
	return 0, false
}

func arraySort(idx, el string) string { return "(Array " + idx + " " + el + ")" }

func T(sort, s string) Term { return Term{S: s, Sort: sort} }

func app(sort, f string, args ...Term) Term {
	var b strings.Builder
	b.WriteString("(")
	b.WriteString(f)
	for _, a := range args {
		b.WriteString(" ")
		b.WriteString(a.S)
	}
	b.WriteString(")")
	return Term{S: b.String(), Sort: sort}
}

var tTrue = T(SBool, "true")
var tFalse = T(SBool, "false")

func bvConst(n int, v uint64) Term {
	if n%4 == 0 {
		return T(bvSort(n), fmt.Sprintf("#x%0*x", n/4, maskBits(v, n)))
	}
	return T(bvSort(n), fmt.Sprintf("(_ bv%d %d)", maskBits(v, n), n))
}

func maskBits(v uint64, n int) uint64 {
	if n >= 64 {
		return v
	}
	return v & ((uint64(1) << uint(n)) - 1)
}

func bv64(v uint64) Term { return bvConst(64, v) }

func and(ts ...Term) Term {
	var xs []Term
	for _, t := range ts {
		if t.S == "true" {
			continue
		}
		if t.S == "false" {
			return tFalse
		}
		xs = append(xs, t)
	}
	if len(xs) == 0 {
		return tTrue
	}
	if len(xs) == 1 {
		return xs[0]
	}
	return app(SBool, "and", xs...)
}

func or(ts ...Term) Term {
	var xs []Term
	for _, t := range ts {
		if t.S == "false" {
			continue
		}
		if t.S == "true" {
			return tTrue
		}
		xs = append(xs, t)
	}
	if len(xs) == 0 {
		return tFalse
	}
	if len(xs) == 1 {
		return xs[0]
	}
	return app(SBool, "or", xs...)
}

func not(t Term) Term {
	if t.S == "true" {
		return tFalse
	}
	if t.S == "false" {
		return tTrue
	}
	return app(SBool, "not", t)
}

func implies(a, b Term) Term {
	if a.S == "true" {
		return b
	}
	if a.S == "false" || b.S == "true" {
		return tTrue
	}
	return app(SBool, "=>", a, b)
}

func eq(a, b Term) Term {
	if a.S == b.S {
		return tTrue
	}
	return app(SBool, "=", a, b)
}

func ite(c, a, b Term) Term {
	if c.S == "true" {
		return a
	}
	if c.S == "false" {
		return b
	}
	if a.S == b.S {
		return a
	}
	return app(a.Sort, "ite", c, a, b)
}

func sel(arr, idx Term) Term {
	// arr sort "(Array I E)"
	el := arrayElemSort(arr.Sort)
	return app(el, "select", arr, idx)
}

func sto(arr, idx, v Term) Term { return app(arr.Sort, "store", arr, idx, v) }

// arrayElemSort parses "(Array I E)" and returns E.
func arrayElemSort(s string) string {
	if !strings.HasPrefix(s, "(Array ") {
		panic("not an array sort: " + s)
	}
	body := s[len("(Array ") : len(s)-1]
	// split at top-level space after first sort
	depth := 0
	for i, c := range body {
		switch c {
		case '(':
			depth++
		case ')':
			depth--
		case ' ':
			if depth == 0 {
				return body[i+1:]
			}
		}
	}
	panic("bad array sort: " + s)
}

func arrayIdxSort(s string) string {
	body := s[len("(Array ") : len(s)-1]
	depth := 0
	for i, c := range body {
		switch c {
		case '(':
			depth++
		case ')':
			depth--
		case ' ':
			if depth == 0 {
				return body[:i]
			}
		}
	}
	panic("bad array sort: " + s)
}

func bvop(op string, a, b Term) Term {
	if n, ok := isBV(a.Sort); ok && n == 64 {
		x, okx := constBV(a)
		y, oky := constBV(b)
		if okx && oky {
			switch op {
			case "bvadd":
				return bv64(x + y)
			case "bvsub":
				return bv64(x - y)
			case "bvmul":
				return bv64(x * y)
			}
		}
		if oky && y == 0 && (op == "bvadd" || op == "bvsub") {
			return a
		}
		if okx && x == 0 && op == "bvadd" {
			return b
		}
	}
	return app(a.Sort, op, a, b)
}
func bvcmp(op string, a, b Term) Term { return app(SBool, op, a, b) }

func zext(t Term, to int) Term {
	n, _ := isBV(t.Sort)
	if n == to {
		return t
	}
	if n > to {
		return app(bvSort(to), fmt.Sprintf("(_ extract %d 0)", to-1), t)
	}
	return app(bvSort(to), fmt.Sprintf("(_ zero_extend %d)", to-n), t)
}

func sext(t Term, to int) Term {
	n, _ := isBV(t.Sort)
	if n == to {
		return t
	}
	if n > to {
		return app(bvSort(to), fmt.Sprintf("(_ extract %d 0)", to-1), t)
	}
	return app(bvSort(to), fmt.Sprintf("(_ sign_extend %d)", to-n), t)
}

func extract(t Term, hi, lo int) Term {
	return app(bvSort(hi-lo+1), fmt.Sprintf("(_ extract %d %d)", hi, lo), t)
}

func concatBV(a, b Term) Term {
	na, _ := isBV(a.Sort)
	nb, _ := isBV(b.Sort)
	return app(bvSort(na+nb), "concat", a, b)
}

// defTable maps define-fun names to their bodies so that accessors can simplify.
var defTable = map[string]string{}

func resolveDef(s string) string {
	for i := 0; i < 4; i++ {
		d, ok := defTable[s]
		if !ok {
			return s
		}
		s = d
	}
	return s
}

// splitArgs splits "(f a b c)" into ["f","a","b","c"] at top level.
func splitArgs(s string) []string {
	if len(s) < 2 || s[0] != '(' {
		return nil
	}
	body := s[1 : len(s)-1]
	var out []string
	depth := 0
	start := 0
	for i := 0; i < len(body); i++ {
		switch body[i] {
		case '(':
			depth++
		case ')':
			depth--
		case ' ':
			if depth == 0 {
				if i > start {
					out = append(out, body[start:i])
				}
				start = i + 1
			}
		}
	}
	if start < len(body) {
		out = append(out, body[start:])
	}
	return out
}

func sliceParts(s Term) []string {
	r := resolveDef(s.S)
	if strings.HasPrefix(r, "(mk_slice ") {
		p := splitArgs(r)
		if len(p) == 5 {
			return p[1:]
		}
	}
	return nil
}

// Slice record accessors (simplifying on literal records).
func sArr(s Term) Term {
	if p := sliceParts(s); p != nil {
		return T(SLoc, p[0])
	}
	return app(SLoc, "s_arr", s)
}
func sOff(s Term) Term {
	if p := sliceParts(s); p != nil {
		return T(bvSort(64), p[1])
	}
	return app(bvSort(64), "s_off", s)
}
func sLen(s Term) Term {
	if p := sliceParts(s); p != nil {
		return T(bvSort(64), p[2])
	}
	return app(bvSort(64), "s_len", s)
}
func sCap(s Term) Term {
	if p := sliceParts(s); p != nil {
		return T(bvSort(64), p[3])
	}
	return app(bvSort(64), "s_cap", s)
}

// constBV returns the value of a literal bit-vector term.
func constBV(t Term) (uint64, bool) {
	s := resolveDef(t.S)
	if strings.HasPrefix(s, "#x") {
		var v uint64
		if _, err := fmt.Sscanf(s[2:], "%x", &v); err == nil && len(s) <= 18 {
			return v, true
		}
	}
	if strings.HasPrefix(s, "(_ bv") {
		var v uint64
		var n int
		if _, err := fmt.Sscanf(s, "(_ bv%d %d)", &v, &n); err == nil {
			return v, true
		}
	}
	return 0, false
}
func mkSlice(arr, off, ln, cp Term) Term {
	return app(SSlice, "mk_slice", arr, off, ln, cp)
}

var nilLoc = T(SLoc, "nil_loc")
var nilIface = T(SIface, "nil_iface")
var nilSlice = T(SSlice, "(mk_slice nil_loc #x0000000000000000 #x0000000000000000 #x0000000000000000)")

func elemLoc(arr, idx Term) Term { return app(SLoc, "elem", arr, idx) }
func fldLoc(obj Term, k int) Term {
	return app(SLoc, "fld", obj, T("Int", fmt.Sprint(k)))
}

func mangle(s string) string {
	var b strings.Builder
	for _, c := range s {
		switch {
		case c >= 'a' && c <= 'z', c >= 'A' && c <= 'Z', c >= '0' && c <= '9', c == '_':
			b.WriteRune(c)
		case c == '.':
			b.WriteString("_d_")
		case c == '/':
			b.WriteString("_s_")
		case c == '*':
			b.WriteString("_p_")
		case c == '$':
			b.WriteString("_c_")
		case c == '[':
			b.WriteString("_l_")
		case c == ']':
			b.WriteString("_r_")
		case c == '(' || c == ')' || c == ' ':
			b.WriteString("_")
		default:
			b.WriteString(fmt.Sprintf("_x%x_", c))
		}
	}
	return "g_" + b.String()
}

const prelude = `(set-option :produce-models true)
(set-logic ALL)
(declare-sort Loc 0)
(declare-sort Iface 0)
(declare-sort F64 0)
(declare-sort Fn 0)
(declare-sort ByteSeq 0)
(declare-const nil_loc Loc)
(declare-const nil_iface Iface)
(declare-const nil_fn Fn)
(declare-datatypes ((Slice 0)) (((mk_slice (s_arr Loc) (s_off (_ BitVec 64)) (s_len (_ BitVec 64)) (s_cap (_ BitVec 64))))))
(declare-fun elem (Loc (_ BitVec 64)) Loc)
(declare-fun elem_arr (Loc) Loc)
(declare-fun elem_idx (Loc) (_ BitVec 64))
(declare-fun fld (Loc Int) Loc)
(declare-fun fld_obj (Loc) Loc)
(declare-fun fld_id (Loc) Int)
(declare-fun kind (Loc) Int)
(declare-fun root (Loc) Int)
(assert (= (kind nil_loc) 0))
(assert (= (root nil_loc) 0))
(declare-fun iface_type (Iface) Int)
(declare-fun iface_loc (Iface) Loc)
(assert (= (iface_type nil_iface) 0))
`

// Quantified memory axioms (always included; ground instances are added as well).
const memAxioms = `(assert (forall ((a Loc) (i (_ BitVec 64))) (! (and (= (elem_arr (elem a i)) a) (= (elem_idx (elem a i)) i) (= (kind (elem a i)) 2) (= (root (elem a i)) (root a))) :pattern ((elem a i)))))
(assert (forall ((o Loc) (k Int)) (! (and (= (fld_obj (fld o k)) o) (= (fld_id (fld o k)) k) (= (kind (fld o k)) 1) (= (root (fld o k)) (root o))) :pattern ((fld o k)))))
`
