package main

import (
	"fmt"
	"go/ast"
	"go/token"
	"strconv"
	"strings"

	"golang.org/x/tools/go/packages"
)

type Clause struct {
	Label string
	E     Expr
	Text  string
	Pos   token.Pos
	Local bool // "exit" clause: an obligation at every return that may mention locals; callers do not see it
}

type FuncSpec struct {
	Key       string // "<pkgpath>::<rel>"
	PkgPath   string
	Rel       string
	Props     []string
	Requires  []Clause
	Ensures   []Clause
	LoopInv   map[int][]Clause
	LoopDec   map[int]Clause
	Modifies  []Expr
	ModAll    bool
	GhostMod  []string // ghost variables listed as modifies ghost(x)
	HasMod    bool
	Inline    bool
	Trusted   bool // contract is assumed at call sites, body not verified (listed as assumption)
	Tags      map[string]bool
	Safety    map[string]bool
	AllocVar  string // name of the parameter that bounds allocations (decoder tag)
	Timeout   int    // per-obligation solver limit (s) for this function, if larger than the tier default
	Pos       token.Pos
	ParseErrs []string
	Ghost     []GhostUpd // ghost updates performed by calls to this function (applied at call sites and at exit obligations)
	Lets      []LetDef
}

type LetDef struct {
	Name string
	E    Expr
}

type GhostUpd struct {
	Var string
	E   Expr
}

type SpecFunc struct {
	Name    string
	PkgPath string
	Params  []QVar
	Result  string
	Body    Expr // nil ⇒ uninterpreted
	Pos     token.Pos
	Reads   bool // depends on heap (uses deref/len/index of params)
}

type Axiom struct {
	Name    string
	PkgPath string
	E       Expr
	Pos     token.Pos
}

type GhostVar struct {
	Name    string
	PkgPath string
	Type    string
	Pos     token.Pos
}

type Lemma struct {
	Name     string
	PkgPath  string
	Params   []QVar
	Requires []Clause
	Ensures  []Clause
	Props    []string
	Pos      token.Pos
}

type SpecDB struct {
	funcs     map[string]*FuncSpec
	specFuncs map[string]*SpecFunc // by pkgpath::name
	axioms    []*Axiom
	ghosts    map[string]*GhostVar // by pkgpath::name
	lemmas    []*Lemma
	errs      []string
	nAxioms   int
}

func newSpecDB() *SpecDB {
	return &SpecDB{funcs: map[string]*FuncSpec{}, specFuncs: map[string]*SpecFunc{}, ghosts: map[string]*GhostVar{}}
}

func indentOf(s string) int {
	n := 0
	for _, c := range s {
		if c == ' ' {
			n++
		} else if c == '\t' {
			n += 4
		} else {
			break
		}
	}
	return n
}

var clauseKeywords = map[string]bool{"requires": true, "ensures": true, "exit": true, "loop": true, "modifies": true, "property": true,
	"inline": true, "tag": true, "safety": true, "trusted": true, "alloc": true, "ghost": true, "let": true, "timeout": true}

func (db *SpecDB) readFile(e *Engine, p *packages.Package, f *ast.File) {
	lines := contractLines(f)
	// group into items
	type item struct {
		head    specLine
		clauses []specLine
	}
	var items []*item
	var cur *item
	for _, ln := range lines {
		txt := ln.text
		if strings.TrimSpace(txt) == "" {
			continue
		}
		ind := indentOf(txt)
		body := strings.TrimSpace(txt)
		if strings.HasPrefix(body, "//") {
			continue
		}
		if ind <= 1 {
			cur = &item{head: specLine{text: body, pos: ln.pos}}
			items = append(items, cur)
			continue
		}
		if cur == nil {
			db.errs = append(db.errs, fmt.Sprintf("%s: clause without item: %s", e.pos(ln.pos), body))
			continue
		}
		first := strings.Fields(body)[0]
		if clauseKeywords[first] && ind <= 4 {
			cur.clauses = append(cur.clauses, specLine{text: body, pos: ln.pos})
		} else if len(cur.clauses) > 0 {
			cur.clauses[len(cur.clauses)-1].text += " " + stripLineComment(body)
		} else {
			cur.head.text += " " + stripLineComment(body)
		}
	}
	for _, it := range items {
		h := it.head.text
		switch {
		case strings.HasPrefix(h, "spec func "):
			db.parseSpecFunc(e, p.PkgPath, strings.TrimPrefix(h, "spec func "), it.head.pos)
		case strings.HasPrefix(h, "axiom "):
			rest := strings.TrimPrefix(h, "axiom ")
			name, body, ok := strings.Cut(rest, ":")
			if !ok {
				db.errs = append(db.errs, fmt.Sprintf("%s: axiom needs 'name: expr'", e.pos(it.head.pos)))
				continue
			}
			ex, err := parseExpr(body)
			if err != nil {
				db.errs = append(db.errs, fmt.Sprintf("%s: %v", e.pos(it.head.pos), err))
				continue
			}
			db.axioms = append(db.axioms, &Axiom{Name: strings.TrimSpace(name), PkgPath: p.PkgPath, E: ex, Pos: it.head.pos})
		case strings.HasPrefix(h, "ghost var "):
			fs := strings.Fields(strings.TrimPrefix(h, "ghost var "))
			if len(fs) != 2 {
				db.errs = append(db.errs, fmt.Sprintf("%s: ghost var name type", e.pos(it.head.pos)))
				continue
			}
			db.ghosts[p.PkgPath+"::"+fs[0]] = &GhostVar{Name: fs[0], PkgPath: p.PkgPath, Type: fs[1], Pos: it.head.pos}
		case strings.HasPrefix(h, "lemma "):
			db.parseLemma(e, p.PkgPath, strings.TrimPrefix(h, "lemma "), it.head.pos, it.clauses)
		case strings.HasPrefix(h, "func "):
			rel := strings.TrimSpace(strings.TrimPrefix(h, "func "))
			key := p.PkgPath + "::" + rel
			if strings.Contains(rel, "::") {
				key = rel // fully qualified: a contract for a function of another (library) package
			}
			fs := &FuncSpec{Key: key, PkgPath: p.PkgPath, Rel: rel, LoopInv: map[int][]Clause{}, LoopDec: map[int]Clause{},
				Tags: map[string]bool{}, Safety: map[string]bool{}, Pos: it.head.pos}
			for _, cl := range it.clauses {
				db.parseClause(e, fs, cl)
			}
			if old, dup := db.funcs[fs.Key]; dup {
				db.errs = append(db.errs, fmt.Sprintf("%s: duplicate contract for %s (first at %s)", e.pos(it.head.pos), fs.Key, e.pos(old.Pos)))
			}
			db.funcs[fs.Key] = fs
		default:
			db.errs = append(db.errs, fmt.Sprintf("%s: unknown item %q", e.pos(it.head.pos), h))
		}
	}
}

func stripLineComment(s string) string {
	// remove trailing " // ..." outside strings
	inStr := false
	for i := 0; i+1 < len(s); i++ {
		if s[i] == '"' {
			inStr = !inStr
		}
		if !inStr && s[i] == '/' && s[i+1] == '/' {
			return strings.TrimSpace(s[:i])
		}
	}
	return s
}

func splitLabel(s string) (label, rest string) {
	s = strings.TrimSpace(s)
	if strings.HasPrefix(s, "[") {
		if i := strings.Index(s, "]"); i > 0 {
			return strings.TrimSpace(s[1:i]), strings.TrimSpace(s[i+1:])
		}
	}
	return "", s
}

func (db *SpecDB) parseClause(e *Engine, fs *FuncSpec, cl specLine) {
	txt := stripLineComment(cl.text)
	kw, rest, _ := strings.Cut(txt, " ")
	rest = strings.TrimSpace(rest)
	fail := func(err error) {
		msg := fmt.Sprintf("%s: %s: %v", e.pos(cl.pos), fs.Key, err)
		fs.ParseErrs = append(fs.ParseErrs, msg)
		db.errs = append(db.errs, msg)
	}
	switch kw {
	case "requires", "ensures", "exit":
		label, body := splitLabel(rest)
		ex, err := parseExpr(body)
		if err != nil {
			fail(err)
			return
		}
		c := Clause{Label: label, E: ex, Text: body, Pos: cl.pos, Local: kw == "exit"}
		if kw != "requires" {
			// a top-level conjunction becomes one obligation per conjunct (label.k): smaller
			// goals for the solver and a precise name for whatever fails
			if parts := conjuncts(ex); len(parts) > 1 {
				if label == "" {
					label = fmt.Sprint(len(fs.Ensures) + 1)
				}
				for i, p := range parts {
					fs.Ensures = append(fs.Ensures, Clause{Label: fmt.Sprintf("%s.%d", label, i+1), E: p, Text: p.String(), Pos: cl.pos, Local: c.Local})
				}
				return
			}
		}
		if kw == "requires" {
			if c.Label == "" {
				c.Label = fmt.Sprint(len(fs.Requires) + 1)
			}
			fs.Requires = append(fs.Requires, c)
		} else {
			if c.Label == "" {
				c.Label = fmt.Sprint(len(fs.Ensures) + 1)
			}
			fs.Ensures = append(fs.Ensures, c)
		}
	case "loop":
		// loop N invariant [label] expr | loop N decreases expr
		parts := strings.SplitN(rest, " ", 3)
		if len(parts) < 3 {
			fail(fmt.Errorf("loop N invariant|decreases expr"))
			return
		}
		n, err := strconv.Atoi(parts[0])
		if err != nil {
			fail(err)
			return
		}
		label, body := splitLabel(parts[2])
		ex, err := parseExpr(body)
		if err != nil {
			fail(err)
			return
		}
		switch parts[1] {
		case "invariant":
			if label == "" {
				label = fmt.Sprint(len(fs.LoopInv[n]) + 1)
			}
			if parts := conjuncts(ex); len(parts) > 1 {
				for i, p := range parts {
					fs.LoopInv[n] = append(fs.LoopInv[n], Clause{Label: fmt.Sprintf("%s.%d", label, i+1), E: p, Text: p.String(), Pos: cl.pos})
				}
				return
			}
			fs.LoopInv[n] = append(fs.LoopInv[n], Clause{Label: label, E: ex, Text: body, Pos: cl.pos})
		case "decreases":
			fs.LoopDec[n] = Clause{Label: "dec", E: ex, Text: body, Pos: cl.pos}
		default:
			fail(fmt.Errorf("loop clause %q", parts[1]))
		}
	case "modifies":
		fs.HasMod = true
		for _, part := range splitTopLevel(rest, ',') {
			part = strings.TrimSpace(part)
			switch part {
			case "nothing", "":
			case "heap":
				fs.ModAll = true
			default:
				if strings.HasPrefix(part, "ghost(") && strings.HasSuffix(part, ")") {
					// ghost(name): the callee may change this ghost variable (and, with any
					// ghost(...) listed, no other one)
					n := strings.TrimSpace(part[len("ghost(") : len(part)-1])
					if i := strings.LastIndex(n, "."); i >= 0 {
						n = n[i+1:]
					}
					fs.GhostMod = append(fs.GhostMod, n)
					continue
				}
				ex, err := parseExpr(part)
				if err != nil {
					fail(err)
					continue
				}
				fs.Modifies = append(fs.Modifies, ex)
			}
		}
	case "property":
		fs.Props = append(fs.Props, strings.Fields(rest)...)
	case "inline":
		fs.Inline = true
	case "trusted":
		fs.Trusted = true
	case "tag":
		for _, t := range strings.Fields(rest) {
			fs.Tags[t] = true
		}
	case "safety":
		for _, t := range strings.Fields(rest) {
			fs.Safety[t] = true
		}
	case "timeout":
		n, err := strconv.Atoi(strings.TrimSpace(rest))
		if err != nil {
			fail(err)
			return
		}
		fs.Timeout = n
	case "alloc":
		fs.AllocVar = rest
	case "ghost":
		// ghost name = expr   (effect of calling this function on a ghost variable)
		name, body, ok := strings.Cut(rest, "=")
		if !ok {
			fail(fmt.Errorf("ghost name = expr"))
			return
		}
		ex, err := parseExpr(body)
		if err != nil {
			fail(err)
			return
		}
		fs.Ghost = append(fs.Ghost, GhostUpd{Var: strings.TrimSpace(name), E: ex})
	case "let":
		name, body, ok := strings.Cut(rest, "=")
		if !ok {
			fail(fmt.Errorf("let name = expr"))
			return
		}
		ex, err := parseExpr(body)
		if err != nil {
			fail(err)
			return
		}
		fs.Lets = append(fs.Lets, LetDef{Name: strings.TrimSpace(name), E: ex})
	default:
		fail(fmt.Errorf("unknown clause keyword %q", kw))
	}
}

// conjuncts flattens a top-level && chain.
func conjuncts(e Expr) []Expr {
	if b, ok := e.(*EBinary); ok && b.Op == "&&" {
		return append(conjuncts(b.X), conjuncts(b.Y)...)
	}
	return []Expr{e}
}

func splitTopLevel(s string, sep rune) []string {
	var out []string
	depth := 0
	start := 0
	for i, c := range s {
		switch c {
		case '(', '[':
			depth++
		case ')', ']':
			depth--
		default:
			if c == sep && depth == 0 {
				out = append(out, s[start:i])
				start = i + 1
			}
		}
	}
	out = append(out, s[start:])
	return out
}

// parseSpecFunc parses "name(p T, q U) R [= expr]".
func (db *SpecDB) parseSpecFunc(e *Engine, pkgPath, s string, pos token.Pos) {
	s = stripLineComment(s)
	lp := strings.Index(s, "(")
	if lp < 0 {
		db.errs = append(db.errs, fmt.Sprintf("%s: bad spec func", e.pos(pos)))
		return
	}
	name := strings.TrimSpace(s[:lp])
	// find matching paren
	depth := 0
	rp := -1
	for i := lp; i < len(s); i++ {
		if s[i] == '(' {
			depth++
		} else if s[i] == ')' {
			depth--
			if depth == 0 {
				rp = i
				break
			}
		}
	}
	if rp < 0 {
		db.errs = append(db.errs, fmt.Sprintf("%s: bad spec func parens", e.pos(pos)))
		return
	}
	params, err := parseParamList(s[lp+1 : rp])
	if err != nil {
		db.errs = append(db.errs, fmt.Sprintf("%s: %v", e.pos(pos), err))
		return
	}
	rest := strings.TrimSpace(s[rp+1:])
	res, body, hasBody := strings.Cut(rest, "=")
	// careful: "==" inside body; Cut at first '=' which is the definition sign since result type has none
	sf := &SpecFunc{Name: name, PkgPath: pkgPath, Params: params, Result: strings.TrimSpace(res), Pos: pos}
	if hasBody {
		ex, err := parseExpr(body)
		if err != nil {
			db.errs = append(db.errs, fmt.Sprintf("%s: %v", e.pos(pos), err))
			return
		}
		sf.Body = ex
	}
	db.specFuncs[pkgPath+"::"+name] = sf
}

func parseParamList(s string) ([]QVar, error) {
	var out []QVar
	s = strings.TrimSpace(s)
	if s == "" {
		return nil, nil
	}
	var pendingNames []string
	for _, part := range splitTopLevel(s, ',') {
		fs := strings.Fields(part)
		switch len(fs) {
		case 1:
			pendingNames = append(pendingNames, fs[0])
		case 2:
			for _, n := range pendingNames {
				out = append(out, QVar{Name: n, Type: fs[1]})
			}
			pendingNames = nil
			out = append(out, QVar{Name: fs[0], Type: fs[1]})
		default:
			return nil, fmt.Errorf("bad parameter %q", part)
		}
	}
	if len(pendingNames) > 0 {
		return nil, fmt.Errorf("parameter without type: %v", pendingNames)
	}
	return out, nil
}

func (db *SpecDB) parseLemma(e *Engine, pkgPath, s string, pos token.Pos, clauses []specLine) {
	lp := strings.Index(s, "(")
	rp := strings.LastIndex(s, ")")
	if lp < 0 || rp < lp {
		db.errs = append(db.errs, fmt.Sprintf("%s: bad lemma head", e.pos(pos)))
		return
	}
	params, err := parseParamList(s[lp+1 : rp])
	if err != nil {
		db.errs = append(db.errs, fmt.Sprintf("%s: %v", e.pos(pos), err))
		return
	}
	lm := &Lemma{Name: strings.TrimSpace(s[:lp]), PkgPath: pkgPath, Params: params, Pos: pos}
	for _, cl := range clauses {
		txt := stripLineComment(cl.text)
		kw, rest, _ := strings.Cut(txt, " ")
		switch kw {
		case "requires", "ensures":
			label, body := splitLabel(rest)
			ex, err := parseExpr(body)
			if err != nil {
				db.errs = append(db.errs, fmt.Sprintf("%s: %v", e.pos(cl.pos), err))
				continue
			}
			c := Clause{Label: label, E: ex, Text: body, Pos: cl.pos}
			if kw == "requires" {
				lm.Requires = append(lm.Requires, c)
			} else {
				if c.Label == "" {
					c.Label = fmt.Sprint(len(lm.Ensures) + 1)
				}
				lm.Ensures = append(lm.Ensures, c)
			}
		case "property":
			lm.Props = append(lm.Props, strings.Fields(rest)...)
		}
	}
	db.lemmas = append(db.lemmas, lm)
}

// findSpecFunc resolves a spec function by bare name, preferring the given package.
func (db *SpecDB) findSpecFunc(pkgPath, name string) *SpecFunc {
	if sf, ok := db.specFuncs[pkgPath+"::"+name]; ok {
		return sf
	}
	var found *SpecFunc
	for _, sf := range db.specFuncs {
		if sf.Name == name {
			if found != nil && found != sf {
				return nil // ambiguous
			}
			found = sf
		}
	}
	return found
}

// finalize runs once after all contract files are read. A trusted contract states
// everything its callee does: when it has no ghost clause and none of its ensures
// mentions a ghost variable, the callee has no ghost effect (ghost-pure).
func (db *SpecDB) finalize() {
	names := map[string]bool{}
	for _, g := range db.ghosts {
		names[g.Name] = true
	}
	isWord := func(c byte) bool {
		return c == '_' || (c >= 'a' && c <= 'z') || (c >= 'A' && c <= 'Z') || (c >= '0' && c <= '9')
	}
	mentions := func(text string) bool {
		for i := 0; i < len(text); {
			if !isWord(text[i]) {
				i++
				continue
			}
			j := i
			for j < len(text) && isWord(text[j]) {
				j++
			}
			if names[text[i:j]] {
				return true
			}
			i = j
		}
		return false
	}
	for _, fs := range db.funcs {
		if !fs.Trusted || len(fs.Ghost) > 0 || fs.Tags["ghost-pure"] {
			continue
		}
		pure := true
		for _, cl := range fs.Ensures {
			if mentions(cl.Text) {
				pure = false
			}
		}
		if pure {
			fs.Tags["ghost-pure"] = true
		}
	}
}

// ghostFrame returns the ghost variables (keys "<pkg>::<name>") the contract allows its
// callee to change; explicit is false when the contract says nothing about ghost state
// (then every ghost variable may change).
func (db *SpecDB) ghostFrame(fs *FuncSpec) (keys map[string]bool, explicit bool) {
	keys = map[string]bool{}
	if !fs.Tags["ghost-pure"] && len(fs.Ghost) == 0 && len(fs.GhostMod) == 0 {
		return keys, false
	}
	for _, gu := range fs.Ghost {
		if gv := db.findGhost(fs.PkgPath, gu.Var); gv != nil {
			keys[gv.PkgPath+"::"+gv.Name] = true
		}
	}
	for _, n := range fs.GhostMod {
		if gv := db.findGhost(fs.PkgPath, n); gv != nil {
			keys[gv.PkgPath+"::"+gv.Name] = true
		} else {
			db.errs = append(db.errs, fmt.Sprintf("%s: modifies ghost(%s): unknown ghost variable", fs.Key, n))
		}
	}
	return keys, true
}

func (db *SpecDB) findGhost(pkgPath, name string) *GhostVar {
	if g, ok := db.ghosts[pkgPath+"::"+name]; ok {
		return g
	}
	var found *GhostVar
	for _, g := range db.ghosts {
		if g.Name == name {
			if found != nil && found != g {
				return nil
			}
			found = g
		}
	}
	return found
}
