package main

import (
	"fmt"
	"go/token"
	"go/types"

	"golang.org/x/tools/go/ssa"
)

// flatField describes one primitive leaf of a slice element: the element itself
// (id < 0) or a first-level struct field (id = field id used by fld).
type flatField struct {
	id   int
	sort string
}

func flatFields(g *Gen, elemT types.Type) []flatField {
	switch u := elemT.Underlying().(type) {
	case *types.Struct:
		var out []flatField
		for i := 0; i < u.NumFields(); i++ {
			switch u.Field(i).Type().Underlying().(type) {
			case *types.Struct, *types.Array:
				return nil
			}
			out = append(out, flatField{id: g.fieldID(elemT, i), sort: g.sortOf(u.Field(i).Type())})
		}
		if len(out) == 0 {
			return nil
		}
		return out
	case *types.Array:
		return nil
	}
	return []flatField{{id: -1, sort: g.sortOf(elemT)}}
}

// memcpyField copies field f of n consecutive elements from src[soff..] to dst[doff..].
func (a *Activation) memcpyField(st *State, f flatField, dst, doff, src, soff, n Term) {
	if f.id < 0 {
		a.memcpy(st, f.sort, dst, doff, src, soff, n)
		return
	}
	g := a.g
	h := g.heap(st, f.sort)
	hold := g.fresh("Hf0", h.Sort)
	g.assertLine(eq(hold, h), hold)
	hn := g.fresh("Hf", h.Sort)
	g.quantified = true
	dstN, doffN, srcN, soffN, nN := g.define("mcd", dst), g.define("mco", doff), g.define("mcs", src), g.define("mcf", soff), g.define("mcn", n)
	g.assertLine(T(SBool, fmt.Sprintf(
		"(forall ((l Loc)) (! (= (select %s l) (ite (and (= (kind l) 1) (= (fld_id l) %d) (= (kind (fld_obj l)) 2) (= (elem_arr (fld_obj l)) %s) (bvule %s (elem_idx (fld_obj l))) (bvult (bvsub (elem_idx (fld_obj l)) %s) %s)) (select %s (fld (elem %s (bvadd %s (bvsub (elem_idx (fld_obj l)) %s))) %d)) (select %s l))) :pattern ((select %s l))))",
		hn.S, f.id, dstN.S, doffN.S, doffN.S, nN.S, hold.S, srcN.S, soffN.S, doffN.S, f.id, hold.S, hn.S)), hn)
	di := bvop("bvadd", doffN, T(bvSort(64), "i"))
	si := bvop("bvadd", soffN, T(bvSort(64), "i"))
	g.assertLine(T(SBool, fmt.Sprintf(
		"(forall ((i (_ BitVec 64))) (! (=> (bvult i %s) (= (select %s (fld (elem %s %s) %d)) (select %s (fld (elem %s %s) %d)))) :pattern ((select %s (fld (elem %s %s) %d)))))",
		nN.S, hn.S, dstN.S, di.S, f.id, hold.S, srcN.S, si.S, f.id, hn.S, dstN.S, di.S, f.id)), hn)
	st.heaps[f.sort] = hn
	g.recordCopy(hn, h, dstN, f.id)
}

// havocElems makes the elements [0,len) of slice sl arbitrary, leaving the rest of the heap.
func (a *Activation) havocElems(st *State, elemT types.Type, sl Term) {
	g := a.g
	fields := flatFields(g, elemT)
	if fields == nil {
		g.note("havoc of nested-struct elements: element heaps havocked entirely")
		g.havocHeapSortsOf(st, elemT)
		return
	}
	arrN, loN, nN := g.define("hea", sArr(sl)), g.define("hel", sOff(sl)), g.define("hen", sLen(sl))
	for _, f := range fields {
		h := g.heap(st, f.sort)
		hold := g.fresh("He0", h.Sort)
		g.assertLine(eq(hold, h), hold)
		hn := g.fresh("He", h.Sort)
		g.quantified = true
		var inRange string
		if f.id < 0 {
			inRange = fmt.Sprintf("(and (= (kind l) 2) (= (elem_arr l) %s) (bvule %s (elem_idx l)) (bvult (bvsub (elem_idx l) %s) %s))", arrN.S, loN.S, loN.S, nN.S)
		} else {
			inRange = fmt.Sprintf("(and (= (kind l) 1) (= (fld_id l) %d) (= (kind (fld_obj l)) 2) (= (elem_arr (fld_obj l)) %s) (bvule %s (elem_idx (fld_obj l))) (bvult (bvsub (elem_idx (fld_obj l)) %s) %s))", f.id, arrN.S, loN.S, loN.S, nN.S)
		}
		g.assertLine(T(SBool, fmt.Sprintf("(forall ((l Loc)) (! (=> (not %s) (= (select %s l) (select %s l))) :pattern ((select %s l))))", inRange, hn.S, hold.S, hn.S)), hn)
		st.heaps[f.sort] = hn
		g.recordCopy(hn, h, arrN, f.id)
	}
}

// appendStructs models append for slices whose elements are flat structs.
func (a *Activation) appendStructs(st *State, s, more Term, elemT types.Type, fields []flatField, pos token.Pos) Term {
	g := a.g
	n := g.define("apn", sLen(more))
	resArr, resOff, newLen, resCap := a.appendPrep(st, s, n, pos)
	for _, f := range fields {
		if l, ok := constBV(sLen(s)); !ok || l != 0 {
			a.memcpyField(st, f, resArr, resOff, sArr(s), sOff(s), sLen(s))
		}
		a.memcpyField(st, f, resArr, bvop("bvadd", resOff, sLen(s)), sArr(more), sOff(more), n)
	}
	res := mkSlice(resArr, resOff, newLen, resCap)
	if c, ok := constBV(n); !ok || c == 0 {
		res = ite(and(eq(n, bv64(0)), eq(sArr(s), nilLoc)), s, res)
	}
	return g.define("app", res)
}

// leafLocs enumerates the scalar cells (with their types) of an object of type t at loc.
func (a *Activation) leafLocs(loc Term, t types.Type) []protectedLoc {
	g := a.g
	switch u := t.Underlying().(type) {
	case *types.Struct:
		var out []protectedLoc
		for i := 0; i < u.NumFields(); i++ {
			out = append(out, a.leafLocs(g.fldLoc(loc, t, i), u.Field(i).Type())...)
		}
		return out
	case *types.Array:
		if u.Len() > 16 {
			return nil
		}
		var out []protectedLoc
		for i := int64(0); i < u.Len(); i++ {
			out = append(out, a.leafLocs(elemLoc(loc, bv64(uint64(i))), u.Elem())...)
		}
		return out
	}
	return []protectedLoc{{loc: loc, ty: t}}
}

// baseAlloc follows a chain of field/index address computations back to a local Alloc.
func baseAlloc(v ssa.Value) *ssa.Alloc {
	for i := 0; i < 16; i++ {
		switch x := v.(type) {
		case *ssa.Alloc:
			return x
		case *ssa.FieldAddr:
			v = x.X
		case *ssa.IndexAddr:
			v = x.X
		default:
			return nil
		}
	}
	return nil
}
