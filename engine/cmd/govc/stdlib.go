package main

import (
	"fmt"
	"go/token"
	"go/types"
	"strings"

	"golang.org/x/tools/go/ssa"
)

// stdlibEffects reports heap sorts written by modelled library functions.
func stdlibEffects(fn *ssa.Function) ([]string, bool) {
	name := fn.String()
	if i := strings.Index(name, "["); i > 0 {
		name = name[:i] // instance of a generic library function
	}
	switch {
	case strings.HasPrefix(name, "encoding/binary.PutUvarint"), strings.HasPrefix(name, "encoding/binary.PutVarint"),
		strings.Contains(name, "Endian).PutUint"), strings.HasPrefix(name, "encoding/binary.AppendUvarint"), strings.Contains(name, "Endian).AppendUint"):
		return []string{bvSort(8)}, true
	case name == "sort.Slice", name == "sort.SliceStable", name == "sort.Ints", name == "sort.Strings", name == "slices.Sort", name == "sort.Sort":
		return []string{bvSort(8), bvSort(64), bvSort(32), SLoc, SSlice, SBool, SIface}, true
	case strings.HasPrefix(name, "(*bufio.Reader)."):
		return []string{"Avail"}, true
	case name == "io.ReadFull":
		return []string{"Avail", bvSort(8)}, true
	case strings.HasPrefix(name, "(*sync.Mutex)."), strings.HasPrefix(name, "(*sync.RWMutex)."):
		return []string{"Held"}, true
	case strings.HasPrefix(name, "(*sync.WaitGroup)."), name == "context.Background", name == "context.TODO", strings.HasPrefix(name, "context.With"), name == "time.Now":
		return nil, true
	case strings.HasPrefix(name, "sync/atomic.Load"):
		return nil, true
	case strings.HasPrefix(name, "(*sync/atomic."):
		if strings.HasSuffix(name, ".Load") {
			return nil, true
		}
		return []string{bvSort(64), bvSort(32), SBool, SLoc}, true
	}
	return nil, false
}

func (g *Gen) byteAt(st *State, s Term, i Term) Term {
	return g.heapSelect(g.heap(st, bvSort(8)), elemLoc(sArr(s), bvop("bvadd", sOff(s), i)))
}

// uvarintDecode builds (value, n) terms of binary.Uvarint(buf) following the library source:
//
//	for i, b := range buf { if i == 10 { return 0, -(i+1) }; if b < 0x80 { if i == 9 && b > 1 { return 0, -(i+1) }; return x | uint64(b)<<s, i+1 }; x |= uint64(b&0x7f) << s; s += 7 }; return 0, 0
func (g *Gen) uvarintDecode(st *State, buf Term) (Term, Term) {
	L := sLen(buf)
	var bs [10]Term
	for i := 0; i < 10; i++ {
		bs[i] = g.define("uvb", g.byteAt(st, buf, bv64(uint64(i))))
	}
	var build func(i int, x Term) (Term, Term)
	build = func(i int, x Term) (Term, Term) {
		if i == 10 {
			// i == MaxVarintLen64 reached only if len > 10
			return bv64(0), ite(bvcmp("bvule", L, bv64(10)), bv64(0), bv64(^uint64(10))) // -11
		}
		b := bs[i]
		b64 := zext(b, 64)
		small := bvcmp("bvult", b, bvConst(8, 0x80))
		var vHere, nHere Term
		shifted := bvop("bvshl", b64, bv64(uint64(7*i)))
		if i == 9 {
			over := bvcmp("bvugt", b, bvConst(8, 1))
			vHere = ite(over, bv64(0), bvop("bvor", x, shifted))
			nHere = ite(over, bv64(^uint64(9)), bv64(10)) // -10
		} else {
			vHere = bvop("bvor", x, shifted)
			nHere = bv64(uint64(i + 1))
		}
		x2 := g.define("uvx", bvop("bvor", x, bvop("bvshl", bvop("bvand", b64, bv64(0x7f)), bv64(uint64(7*i)))))
		vRest, nRest := build(i+1, x2)
		end := bvcmp("bvule", L, bv64(uint64(i)))
		v := ite(end, bv64(0), ite(small, vHere, vRest))
		n := ite(end, bv64(0), ite(small, nHere, nRest))
		return g.define("uvv", v), g.define("uvn", n)
	}
	return build(0, bv64(0))
}

// uvarintEncode returns the length and the 10 byte terms of the varint encoding of x.
func (g *Gen) uvarintEncode(x Term) (Term, [10]Term) {
	x = g.define("uvx", x)
	n := bv64(10)
	for i := 8; i >= 0; i-- {
		n = ite(bvcmp("bvult", x, bv64(uint64(1)<<uint(7*(i+1)))), bv64(uint64(i+1)), n)
	}
	n = g.define("uvlen", n)
	var bs [10]Term
	for i := 0; i < 10; i++ {
		chunk := extract(bvop("bvlshr", x, bv64(uint64(7*i))), 7, 0)
		last := eq(n, bv64(uint64(i+1)))
		bs[i] = g.define("uve", ite(last, chunk, bvop("bvor", chunk, bvConst(8, 0x80))))
	}
	return n, bs
}

// writeBytes stores bs[i] at elem(arr, off+i) for i < n (n symbolic, len(bs) small).
func (a *Activation) writeBytes(st *State, arr, off Term, bs []Term, n Term) {
	g := a.g
	h0 := g.define("H", g.heap(st, bvSort(8)))
	h := h0
	arr = g.define("wba", arr)
	off = g.define("wbo", off)
	for i, b := range bs {
		loc := elemLoc(arr, bvop("bvadd", off, bv64(uint64(i))))
		var v Term
		if c, ok := constBV(n); ok {
			if uint64(i) >= c {
				break
			}
			v = b
		} else {
			// locations of different i are distinct, so the old value can be read from h0
			v = ite(bvcmp("bvult", bv64(uint64(i)), n), b, g.heapSelect(h0, loc))
		}
		h = g.heapStore(h, loc, v)
	}
	st.heaps[bvSort(8)] = g.define("H", h)
}

// appendSmall appends up to len(bs) bytes (n of them) to slice s.
func (a *Activation) appendSmall(st *State, s Term, bs []Term, n Term, pos token.Pos) Term {
	g := a.g
	n = g.define("apn", n)
	resArr, resOff, newLen, resCap := a.appendPrep(st, s, n, pos)
	if l, ok := constBV(sLen(s)); !ok || l != 0 {
		a.memcpy(st, bvSort(8), resArr, resOff, sArr(s), sOff(s), sLen(s))
	}
	a.writeBytes(st, resArr, bvop("bvadd", resOff, sLen(s)), bs, n)
	res := mkSlice(resArr, resOff, newLen, resCap)
	if c, ok := constBV(n); !ok || c == 0 {
		res = ite(and(eq(n, bv64(0)), eq(sArr(s), nilLoc)), s, res)
	}
	return g.define("app", res)
}

func beBytes(v Term, nbytes int, bigEndian bool) []Term {
	var out []Term
	for i := 0; i < nbytes; i++ {
		k := i
		if bigEndian {
			k = nbytes - 1 - i
		}
		out = append(out, extract(v, 8*k+7, 8*k))
	}
	return out
}

func (a *Activation) readEndian(st *State, buf Term, nbytes int, bigEndian bool, pos token.Pos) Term {
	g := a.g
	a.boundCheck(st, "idx", bvcmp("bvsge", sLen(buf), bv64(uint64(nbytes))), pos)
	var res Term
	for i := 0; i < nbytes; i++ {
		k := i
		if !bigEndian {
			k = nbytes - 1 - i
		}
		b := g.byteAt(st, buf, bv64(uint64(k)))
		if i == 0 {
			res = b
		} else {
			res = concatBV(res, b)
		}
	}
	return g.define("end", res)
}

// stdlibCall models library functions. Returns ok=false if not modelled.
func (a *Activation) stdlibCall(st *State, callee *ssa.Function, cc *ssa.CallCommon, args []Val, resT types.Type, pos token.Pos) (Val, bool) {
	g := a.g
	name := callee.String()
	if i := strings.Index(name, "["); i > 0 && !strings.HasPrefix(name, "(") {
		name = name[:i] // instance of a generic library function
	}
	mark := func() { g.stdUsed[name] = true }
	errType := types.Universe.Lookup("error").Type()
	switch name {
	case "encoding/binary.Uvarint":
		mark()
		v, n := g.uvarintDecode(st, args[0].T)
		if o := a.owner(); o.spec != nil && o.spec.Tags["no-hints"] {
			return Val{Tuple: []Val{{T: v}, {T: n}}}, true
		}
		// Name the results and state the bounds that follow from the definition
		// (-11 <= n <= 10, n <= len(buf)) as redundant facts: they are proved once from
		// the definition by the harness kv.verifUvarintBounds (tag no-hints).
		vC, nC := g.fresh("uvval", bvSort(64)), g.fresh("uvcnt", bvSort(64))
		g.assertLine(and(bvcmp("bvsle", bv64(^uint64(10)), nC), bvcmp("bvsle", nC, bv64(10)), bvcmp("bvsle", nC, sLen(args[0].T)),
			implies(bvcmp("bvsle", nC, bv64(0)), eq(vC, bv64(0)))), vC, nC)
		g.assertHeavy(and(eq(vC, v), eq(nC, n)), vC, nC)
		return Val{Tuple: []Val{{T: vC}, {T: nC}}}, true
	case "encoding/binary.AppendUvarint":
		mark()
		n, bs := g.uvarintEncode(args[1].T)
		return Val{T: a.appendSmall(st, args[0].T, bs[:], n, pos)}, true
	case "encoding/binary.PutUvarint":
		mark()
		n, bs := g.uvarintEncode(args[1].T)
		buf := args[0].T
		a.boundCheck(st, "idx", bvcmp("bvsle", n, sLen(buf)), pos)
		a.frameRange(st, sArr(buf), sOff(buf), n, pos)
		a.writeBytes(st, sArr(buf), sOff(buf), bs[:], n)
		return Val{T: n}, true
	case "fmt.Errorf", "errors.New", "github.com/pkg/errors.New", "github.com/pkg/errors.Errorf":
		mark()
		e := g.fresh("err", SIface)
		g.assertLine(not(eq(e, nilIface)), e)
		return Val{T: e}, true
	case "github.com/pkg/errors.Wrap", "github.com/pkg/errors.Wrapf", "github.com/pkg/errors.WithStack", "github.com/pkg/errors.WithMessage", "github.com/pkg/errors.WithMessagef":
		mark()
		e := g.fresh("err", SIface)
		g.declareFun("err_is", []string{SIface, SIface}, SBool)
		g.assertLine(and(eq(eq(e, nilIface), eq(args[0].T, nilIface)),
			T(SBool, fmt.Sprintf("(forall ((t Iface)) (! (= (err_is %s t) (err_is %s t)) :pattern ((err_is %s t))))", e.S, args[0].T.S, e.S))), e)
		g.quantified = true
		return Val{T: e}, true
	case "errors.Is", "github.com/pkg/errors.Is":
		mark()
		g.declareFun("err_is", []string{SIface, SIface}, SBool)
		r := g.fresh("erris", SBool)
		g.assertLine(and(eq(r, app(SBool, "err_is", args[0].T, args[1].T)), implies(eq(args[0].T, nilIface), eq(r, eq(args[1].T, nilIface))), implies(eq(args[0].T, args[1].T), r)), r)
		return Val{T: r}, true
	case "encoding/json.Marshal", "encoding/json.MarshalIndent":
		mark()
		g.trusted["encoding/json.Marshal: reads its argument, writes nothing, result uninterpreted"] = true
		return a.havocValue(st, resT, "json"), true
	case "fmt.Sprintf", "fmt.Sprint", "fmt.Sprintln":
		mark()
		return a.havocValue(st, resT, "sprintf"), true
	case "bytes.Equal":
		mark()
		return Val{T: a.bytesEqual(st, args[0].T, args[1].T)}, true
	case "bytes.Compare":
		mark()
		return Val{T: a.bytesCompare(st, args[0].T, args[1].T)}, true
	case "hash/crc32.Checksum":
		mark()
		g.useByteSeq()
		g.declareFun("crc32c", []string{SBSeq}, bvSort(32))
		g.trusted["crc32.Checksum is an uninterpreted function of the byte contents (nothing about error detection is claimed)"] = true
		return Val{T: app(bvSort(32), "crc32c", g.absBytes(st, args[0].T))}, true
	case "hash/crc32.MakeTable":
		mark()
		return a.havocValue(st, resT, "crctab"), true
	case "(*sync.Mutex).Lock", "(*sync.RWMutex).Lock", "(*sync.RWMutex).RLock":
		mark()
		st.heaps["Held"] = sto(g.heap(st, "Held"), args[0].T, tTrue)
		return Val{}, true
	case "(*sync.Mutex).Unlock", "(*sync.RWMutex).Unlock", "(*sync.RWMutex).RUnlock":
		mark()
		st.heaps["Held"] = sto(g.heap(st, "Held"), args[0].T, tFalse)
		return Val{}, true
	case "time.Now":
		mark()
		return a.havocValue(st, resT, "now"), true
	case "(*sync.WaitGroup).Add", "(*sync.WaitGroup).Done", "(*sync.WaitGroup).Wait", "(*sync.WaitGroup).Go":
		// a wait group carries no state the verified (sequential) code reads
		mark()
		g.trusted["sync.WaitGroup operations have no effect visible to the sequential code under verification"] = true
		return Val{}, true
	case "google.golang.org/protobuf/proto.Unmarshal":
		// proto.Unmarshal(b, m): writes only the message m it is given (its fields become
		// unconstrained), reads b, returns an arbitrary error
		if len(cc.Args) == 2 {
			if mi, ok := cc.Args[1].(*ssa.MakeInterface); ok {
				if pt, ok := mi.X.Type().Underlying().(*types.Pointer); ok {
					mark()
					g.trusted["protobuf/raftpb Marshal/Unmarshal/Size: uninterpreted results; Unmarshal writes only its receiver; totality and allocation behaviour assumed"] = true
					loc := a.val(st, mi.X).T
					a.frameCheck(st, loc, pos)
					a.havocLoc(st, loc, pt.Elem())
					return a.havocValue(st, resT, "unmarshal"), true
				}
			}
		}
		return Val{}, false
	case "google.golang.org/protobuf/proto.Marshal", "google.golang.org/protobuf/proto.Size":
		mark()
		g.trusted["protobuf/raftpb Marshal/Unmarshal/Size: uninterpreted results; Unmarshal writes only its receiver; totality and allocation behaviour assumed"] = true
		return a.havocValue(st, resT, "marshal"), true
	case "bufio.NewWriter", "bufio.NewWriterSize":
		// a fresh buffered writer (its contents are not modelled)
		mark()
		return Val{T: g.newObject(st, "bufio.Writer")}, true
	case "bufio.NewReader", "bufio.NewReaderSize":
		// a fresh buffered reader; what can be read through it is what was left on the
		// underlying reader when it was created
		mark()
		g.trusted["bufio.NewReader(Size): the new reader's avail() equals the underlying reader's avail() at creation"] = true
		obj := g.newObject(st, "bufio.Reader")
		under := app(SLoc, "iface_loc", args[0].T)
		st.heaps["Avail"] = sto(g.heap(st, "Avail"), obj, sel(g.heap(st, "Avail"), under))
		return Val{T: obj}, true
	case "os.IsNotExist", "os.IsExist", "os.IsPermission", "os.IsTimeout":
		mark()
		return a.havocValue(st, resT, "oserr"), true
	case "context.Background", "context.TODO":
		mark()
		return a.havocValue(st, resT, "ctx"), true
	case "context.WithTimeout", "context.WithCancel", "context.WithDeadline":
		// the derived context and its cancel function touch no program state; calling the
		// cancel function is a no-op for the verified code
		mark()
		g.trusted["context.WithTimeout/WithCancel: the returned CancelFunc only affects the context (no program-visible heap or ghost effect)"] = true
		v := a.havocValue(st, resT, "ctx")
		if len(v.Tuple) == 2 {
			g.noopFns[v.Tuple[1].T.S] = true
		}
		return v, true
	case "(*bufio.Reader).ReadByte":
		// ghost Avail[r]: number of bytes the peer has actually sent and that are still unread
		mark()
		g.trusted["bufio.Reader/io.ReadFull are modelled over a ghost count avail(r) of bytes actually available on the stream: a successful read of k bytes implies k <= avail and decreases it by k"] = true
		r := args[0].T
		av := sel(g.heap(st, "Avail"), r)
		b := g.fresh("rb", bvSort(8))
		e := g.fresh("rerr", SIface)
		g.assume(st, implies(eq(e, nilIface), bvcmp("bvuge", av, bv64(1))))
		st.heaps["Avail"] = sto(g.heap(st, "Avail"), r, ite(eq(e, nilIface), bvop("bvsub", av, bv64(1)), av))
		return Val{Tuple: []Val{{T: b}, {T: e}}}, true
	case "(*bufio.Reader).UnreadByte":
		mark()
		r := args[0].T
		av := sel(g.heap(st, "Avail"), r)
		e := g.fresh("rerr", SIface)
		st.heaps["Avail"] = sto(g.heap(st, "Avail"), r, ite(eq(e, nilIface), bvop("bvadd", av, bv64(1)), av))
		return Val{T: e}, true
	case "(*bufio.Reader).ReadString", "(*bufio.Reader).ReadBytes", "(*bufio.Reader).ReadSlice":
		mark()
		r := args[0].T
		av := sel(g.heap(st, "Avail"), r)
		s := g.fresh("rstr", SSlice)
		e := g.fresh("rerr", SIface)
		g.closed(st, s, types.Typ[types.String])
		last := sel(g.heap(st, bvSort(8)), elemLoc(sArr(s), bvop("bvadd", sOff(s), bvop("bvsub", sLen(s), bv64(1)))))
		g.assume(st, and(bvcmp("bvule", sLen(s), av), implies(eq(e, nilIface), and(bvcmp("bvuge", sLen(s), bv64(1)), eq(last, args[1].T)))))
		st.heaps["Avail"] = sto(g.heap(st, "Avail"), r, bvop("bvsub", av, sLen(s)))
		return Val{Tuple: []Val{{T: s}, {T: e}}}, true
	case "io.ReadFull":
		mark()
		g.trusted["bufio.Reader/io.ReadFull are modelled over a ghost count avail(r) of bytes actually available on the stream: a successful read of k bytes implies k <= avail and decreases it by k"] = true
		r := app(SLoc, "iface_loc", args[0].T)
		buf := args[1].T
		av := sel(g.heap(st, "Avail"), r)
		n := g.fresh("rn", bvSort(64))
		e := g.fresh("rerr", SIface)
		g.assume(st, and(bvcmp("bvule", n, sLen(buf)), bvcmp("bvule", n, av), eq(eq(e, nilIface), eq(n, sLen(buf)))))
		// io.ReadFull's documented outcomes, with avail(r) read as "bytes before the end of
		// the stream": io.EOF iff nothing was left, io.ErrUnexpectedEOF iff the stream ended
		// inside the request (all that was left has been read); any other error is an I/O
		// error that is neither (readers report the end of the stream with io.EOF itself).
		{
			g.trusted["io.ReadFull: returns io.EOF only when 0 bytes were left on the stream, io.ErrUnexpectedEOF only when 0 < left < len(buf) (and reads them all); other errors do not match io.EOF/io.ErrUnexpectedEOF under errors.Is"] = true
			g.declareFun("err_is", []string{SIface, SIface}, SBool)
			eofC := a.sentinel("io", "EOF")
			ueofC := a.sentinel("io", "ErrUnexpectedEOF")
			isE := func(x, y Term) Term { return app(SBool, "err_is", x, y) }
			g.assume(st, and(
				implies(eq(e, eofC), and(eq(n, bv64(0)), eq(av, bv64(0)))),
				implies(eq(e, ueofC), and(not(eq(n, bv64(0))), bvcmp("bvult", n, sLen(buf)), eq(n, av))),
				implies(and(not(eq(e, nilIface)), bvcmp("bvuge", av, sLen(buf))), and(not(eq(e, eofC)), not(eq(e, ueofC)))),
				implies(and(not(eq(e, nilIface)), eq(av, bv64(0)), not(eq(sLen(buf), bv64(0)))), or(eq(e, eofC), not(isE(e, eofC)))),
				implies(and(not(eq(e, eofC)), not(eq(e, ueofC))), and(not(isE(e, eofC)), not(isE(e, ueofC)))),
				isE(eofC, eofC), isE(ueofC, ueofC), not(isE(eofC, ueofC)), not(isE(ueofC, eofC)), not(eq(eofC, ueofC))))
			// an error coming out of a reader is not one of the program's own sentinel errors
			var own []Term
			for _, s := range g.sentinelNames {
				if strings.Contains(s, mangle(modPath)) {
					own = append(own, not(eq(e, T(SIface, s))))
				}
			}
			if len(own) > 0 {
				g.trusted["errors returned by io.ReadFull's underlying reader are never the program's own package-level sentinel errors"] = true
				g.assume(st, and(own...))
			}
		}
		st.heaps["Avail"] = sto(g.heap(st, "Avail"), r, bvop("bvsub", av, n))
		a.frameRange(st, sArr(buf), sOff(buf), sLen(buf), pos)
		a.havocRange(st, bvSort(8), frameRangeT{arr: sArr(buf), lo: sOff(buf), n: sLen(buf)})
		return Val{Tuple: []Val{{T: n}, {T: e}}}, true
	case "sort.Slice", "sort.SliceStable", "sort.Ints", "sort.Strings", "slices.Sort", "sort.Sort":
		// in-place reordering: the elements of the argument slice become arbitrary (a
		// permutation is not modelled); nothing else changes
		var sl Term
		var elemT types.Type
		if mi, ok := cc.Args[0].(*ssa.MakeInterface); ok {
			if st0, ok := mi.X.Type().Underlying().(*types.Slice); ok {
				srt := g.sortOf(mi.X.Type())
				payload := "iface_val_" + mangle(srt)
				g.declareFun(payload, []string{SIface}, srt)
				sl = app(srt, payload, args[0].T)
				elemT = st0.Elem()
			}
		} else if st0, ok := cc.Args[0].Type().Underlying().(*types.Slice); ok {
			sl = args[0].T
			elemT = st0.Elem()
		}
		if elemT == nil {
			return Val{}, false
		}
		mark()
		g.trusted["sort.Slice/sort.Ints/...: reorder the argument slice in place (elements become unconstrained; sortedness and permutation are NOT assumed); nothing else is modified"] = true
		a.frameRange(st, sArr(sl), sOff(sl), sLen(sl), pos)
		hBefore := g.define("Hsb", g.heap(st, bvSort(64)))
		a.havocElems(st, elemT, sl)
		if name == "sort.Ints" {
			// sort.Ints: the result is non-decreasing and is a permutation of the input,
			// given by a bijection pi (with inverse rho) on the index range
			g.nfresh++
			pi, rho := fmt.Sprintf("perm_%d", g.nfresh), fmt.Sprintf("perminv_%d", g.nfresh)
			g.declareFun(pi, []string{bvSort(64)}, bvSort(64))
			g.declareFun(rho, []string{bvSort(64)}, bvSort(64))
			hAfter := g.define("Hsa", g.heap(st, bvSort(64)))
			slN := g.define("srt", sl)
			at := func(h Term, i string) string {
				return fmt.Sprintf("(select %s (elem (s_arr %s) (bvadd (s_off %s) %s)))", h.S, slN.S, slN.S, i)
			}
			n := "(s_len " + slN.S + ")"
			inr := func(i string) string { return fmt.Sprintf("(and (bvsle #x0000000000000000 %s) (bvslt %s %s))", i, i, n) }
			g.quantified = true
			g.assume(st, and(
				T(SBool, fmt.Sprintf("(forall ((i (_ BitVec 64))) (! (=> %s (and %s (= %s %s))) :pattern (%s)))", inr("i"), inr("("+pi+" i)"), at(hAfter, "i"), at(hBefore, "("+pi+" i)"), at(hAfter, "i"))),
				T(SBool, fmt.Sprintf("(forall ((j (_ BitVec 64))) (! (=> %s (and %s (= (%s (%s j)) j))) :pattern (%s)))", inr("j"), inr("("+rho+" j)"), pi, rho, at(hBefore, "j"))),
				T(SBool, fmt.Sprintf("(forall ((i (_ BitVec 64)) (j (_ BitVec 64))) (! (=> (and %s %s (not (= i j))) (not (= (%s i) (%s j)))) :pattern ((%s i) (%s j))))", inr("i"), inr("j"), pi, pi, pi, pi)),
				T(SBool, fmt.Sprintf("(forall ((i (_ BitVec 64)) (j (_ BitVec 64))) (! (=> (and %s %s (bvsle i j)) (bvsle %s %s)) :pattern (%s %s)))", inr("i"), inr("j"), at(hAfter, "i"), at(hAfter, "j"), at(hAfter, "i"), at(hAfter, "j")))))
			// consequence of "sorted permutation", stated explicitly because it needs a case
			// split on the permutation that E-matching finds slowly: distinct inputs give a
			// strictly increasing output
			g.assume(st, T(SBool, fmt.Sprintf("(=> (forall ((i (_ BitVec 64)) (j (_ BitVec 64))) (! (=> (and %s %s (bvslt i j)) (not (= %s %s))) :pattern (%s %s))) (forall ((i (_ BitVec 64)) (j (_ BitVec 64))) (! (=> (and %s %s (bvslt i j)) (bvslt %s %s)) :pattern (%s %s))))",
				inr("i"), inr("j"), at(hBefore, "i"), at(hBefore, "j"), at(hBefore, "i"), at(hBefore, "j"),
				inr("i"), inr("j"), at(hAfter, "i"), at(hAfter, "j"), at(hAfter, "i"), at(hAfter, "j"))))
			g.trusted["sort.Ints: result is non-decreasing and a permutation of the input (explicit bijection); pairwise distinct input gives strictly increasing output"] = true
		}
		return Val{}, true
	case "sort.Search":
		// only the range of the result is modelled: 0 <= r <= n (not "least index")
		mark()
		g.trusted["sort.Search: result lies in [0, n] (the least-index property is not modelled)"] = true
		r := g.fresh("search", bvSort(64))
		g.assertLine(and(bvcmp("bvsle", bv64(0), r), implies(bvcmp("bvsle", bv64(0), args[0].T), bvcmp("bvsle", r, args[0].T))), r)
		return Val{T: r}, true
	case "strconv.Atoi", "strconv.ParseInt", "strconv.ParseUint":
		mark()
		g.trusted["strconv.Atoi/ParseInt: uninterpreted (any integer result, any error); only totality is assumed"] = true
		return a.havocValue(st, resT, "atoi"), true
	case "strings.TrimSpace", "strings.ToLower", "strings.ToUpper":
		mark()
		fn := "str_" + strings.ToLower(callee.Name())
		g.useByteSeq()
		g.declareFun(fn, []string{SBSeq}, SBSeq)
		g.trusted["strings.TrimSpace/ToLower/ToUpper/Contains/HasPrefix/EqualFold: uninterpreted functions of the string contents (TrimSpace result is no longer than its argument)"] = true
		r := g.fresh("strres", SSlice)
		g.closed(st, r, types.Typ[types.String])
		g.assume(st, and(eq(g.absBytes(st, r), app(SBSeq, fn, g.absBytes(st, args[0].T))), bvcmp("bvule", sLen(r), sLen(args[0].T))))
		return Val{T: r}, true
	case "strings.Contains", "strings.HasPrefix", "strings.HasSuffix", "strings.EqualFold":
		mark()
		fn := "str_" + strings.ToLower(callee.Name())
		g.useByteSeq()
		g.declareFun(fn, []string{SBSeq, SBSeq}, SBool)
		g.trusted["strings.TrimSpace/ToLower/ToUpper/Contains/HasPrefix/EqualFold: uninterpreted functions of the string contents (TrimSpace result is no longer than its argument)"] = true
		return Val{T: app(SBool, fn, g.absBytes(st, args[0].T), g.absBytes(st, args[1].T))}, true
	case "strings.Fields":
		mark()
		g.trusted["strings.Fields: result has at most len(s) fields, each no longer than s; contents uninterpreted"] = true
		s := args[0].T
		r := g.fresh("fields", SSlice)
		g.closed(st, r, resT)
		hs := g.define("Hfs", g.heap(st, SSlice))
		g.quantified = true
		g.assume(st, and(bvcmp("bvule", sLen(r), sLen(s)), T(SBool, fmt.Sprintf(
			"(forall ((i (_ BitVec 64))) (! (=> (bvult i (s_len %s)) (and (bvule (s_len (select %s (elem (s_arr %s) (bvadd (s_off %s) i)))) (s_len %s)) (bvsle #x0000000000000000 (s_len (select %s (elem (s_arr %s) (bvadd (s_off %s) i))))))) :pattern ((select %s (elem (s_arr %s) (bvadd (s_off %s) i))))))",
			r.S, hs.S, r.S, r.S, s.S, hs.S, r.S, r.S, hs.S, r.S, r.S))))
		return Val{T: r}, true
	}
	// protobuf / raftpb codecs: trusted to read their argument, write only the receiver
	// (Unmarshal) and allocate; nothing else is assumed about their results.
	if callee.Pkg != nil {
		pp := callee.Pkg.Pkg.Path()
		if pp == "go.etcd.io/raft/v3/raftpb" || strings.HasPrefix(pp, "google.golang.org/protobuf") || strings.HasPrefix(pp, modPath+"/pb") {
			switch callee.Name() {
			case "Unmarshal":
				mark()
				g.trusted["protobuf/raftpb Marshal/Unmarshal/Size: uninterpreted results; Unmarshal writes only its receiver; totality and allocation behaviour assumed"] = true
				if callee.Signature.Recv() != nil && len(args) > 0 {
					if pt, ok := callee.Signature.Recv().Type().Underlying().(*types.Pointer); ok {
						a.havocLoc(st, args[0].T, pt.Elem())
					}
				} else if len(args) == 2 {
					// proto.Unmarshal(b, m): m is an interface; its target object is unknown: havoc everything
					return Val{}, false
				}
				return a.havocValue(st, resT, "unmarshal"), true
			case "Marshal", "Size", "String", "GetKey", "GetValue", "ProtoReflect":
				if callee.Signature.Recv() != nil {
					mark()
					g.trusted["protobuf/raftpb Marshal/Unmarshal/Size: uninterpreted results; Unmarshal writes only its receiver; totality and allocation behaviour assumed"] = true
					return a.havocValue(st, resT, "marshal"), true
				}
			}
		}
	}
	// endian accessors: (encoding/binary.bigEndian).Uint32 etc.
	if strings.HasPrefix(name, "(encoding/binary.bigEndian).") || strings.HasPrefix(name, "(encoding/binary.littleEndian).") {
		big := strings.Contains(name, "bigEndian")
		m := name[strings.LastIndex(name, ".")+1:]
		var nb int
		switch {
		case strings.HasSuffix(m, "16"):
			nb = 2
		case strings.HasSuffix(m, "32"):
			nb = 4
		case strings.HasSuffix(m, "64"):
			nb = 8
		}
		if nb > 0 {
			mark()
			switch {
			case strings.HasPrefix(m, "Uint"):
				return Val{T: a.readEndian(st, args[1].T, nb, big, pos)}, true
			case strings.HasPrefix(m, "PutUint"):
				buf := args[1].T
				a.boundCheck(st, "idx", bvcmp("bvsge", sLen(buf), bv64(uint64(nb))), pos)
				a.frameRange(st, sArr(buf), sOff(buf), bv64(uint64(nb)), pos)
				a.writeBytes(st, sArr(buf), sOff(buf), beBytes(args[2].T, nb, big), bv64(uint64(nb)))
				return Val{}, true
			case strings.HasPrefix(m, "AppendUint"):
				return Val{T: a.appendSmall(st, args[1].T, beBytes(args[2].T, nb, big), bv64(uint64(nb)), pos)}, true
			}
		}
	}
	// sync/atomic functions on plain integers (sequential model, like the typed values)
	if strings.HasPrefix(name, "sync/atomic.") && len(args) >= 1 {
		if pt, ok := callee.Signature.Params().At(0).Type().Underlying().(*types.Pointer); ok {
			if _, isBasic := pt.Elem().Underlying().(*types.Basic); isBasic {
				fn := strings.TrimPrefix(name, "sync/atomic.")
				switch {
				case strings.HasPrefix(fn, "Load"):
					mark()
					g.trusted["sync/atomic operations are modelled sequentially (no interference between the atomic steps of one function)"] = true
					return Val{T: g.define("ald", g.load(st, args[0].T, pt.Elem()))}, true
				case strings.HasPrefix(fn, "Store") && len(args) == 2:
					mark()
					g.trusted["sync/atomic operations are modelled sequentially (no interference between the atomic steps of one function)"] = true
					a.frameCheck(st, args[0].T, pos)
					g.store(st, args[0].T, pt.Elem(), args[1].T)
					return Val{}, true
				case strings.HasPrefix(fn, "Add") && len(args) == 2:
					mark()
					g.trusted["sync/atomic operations are modelled sequentially (no interference between the atomic steps of one function)"] = true
					a.frameCheck(st, args[0].T, pos)
					nv := g.define("aadd", bvop("bvadd", g.load(st, args[0].T, pt.Elem()), args[1].T))
					g.store(st, args[0].T, pt.Elem(), nv)
					return Val{T: nv}, true
				}
			}
		}
	}
	// sync/atomic typed values
	if strings.HasPrefix(name, "(*sync/atomic.") {
		if v, ok := a.atomicCall(st, callee, name, args, resT); ok {
			mark()
			return v, true
		}
	}
	_ = errType
	return Val{}, false
}

// atomicCall models sync/atomic.{Uint64,Int64,Uint32,Int32,Bool}.* as sequential
// operations on the value field.
func (a *Activation) atomicCall(st *State, callee *ssa.Function, name string, args []Val, resT types.Type) (Val, bool) {
	g := a.g
	recvT := callee.Signature.Recv().Type().(*types.Pointer).Elem()
	stT, ok := recvT.Underlying().(*types.Struct)
	if !ok {
		return Val{}, false
	}
	vi := -1
	for i := 0; i < stT.NumFields(); i++ {
		if stT.Field(i).Name() == "v" {
			vi = i
		}
	}
	if vi < 0 {
		return Val{}, false
	}
	vt := stT.Field(vi).Type()
	if _, isPtr := vt.Underlying().(*types.Basic); !isPtr {
		return Val{}, false
	}
	isBool := strings.HasPrefix(name, "(*sync/atomic.Bool)")
	loc := g.fldLoc(args[0].T, recvT, vi)
	cur := g.load(st, loc, vt)
	toBool := func(t Term) Term { return not(eq(t, bvConst(bitsOf(t), 0))) }
	fromBool := func(b Term) Term { return ite(b, bvConst(bitsOf(cur), 1), bvConst(bitsOf(cur), 0)) }
	m := name[strings.LastIndex(name, ".")+1:]
	g.trusted["sync/atomic operations are modelled sequentially (no interference between the atomic steps of one function)"] = true
	switch m {
	case "Load":
		if isBool {
			return Val{T: toBool(cur)}, true
		}
		return Val{T: cur}, true
	case "Store":
		v := args[1].T
		if isBool {
			v = fromBool(v)
		}
		a.frameCheck(st, loc, token.NoPos)
		g.store(st, loc, vt, v)
		return Val{}, true
	case "Add":
		nv := g.define("atom", bvop("bvadd", cur, args[1].T))
		a.frameCheck(st, loc, token.NoPos)
		g.store(st, loc, vt, nv)
		return Val{T: nv}, true
	case "Swap":
		v := args[1].T
		if isBool {
			v = fromBool(v)
		}
		a.frameCheck(st, loc, token.NoPos)
		g.store(st, loc, vt, v)
		if isBool {
			return Val{T: toBool(cur)}, true
		}
		return Val{T: cur}, true
	case "CompareAndSwap":
		o, n := args[1].T, args[2].T
		if isBool {
			o, n = fromBool(o), fromBool(n)
		}
		okT := g.define("cas", eq(cur, o))
		a.frameCheck(st, loc, token.NoPos)
		g.store(st, loc, vt, ite(okT, n, cur))
		return Val{T: okT}, true
	}
	return Val{}, false
}
