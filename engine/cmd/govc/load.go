package main

import (
	"fmt"
	"go/ast"
	"go/token"
	"go/types"
	"os"
	"sort"
	"strings"

	"golang.org/x/tools/go/packages"
	"golang.org/x/tools/go/ssa"
	"golang.org/x/tools/go/ssa/ssautil"
)

// Engine holds the loaded program and the contract database.
type Engine struct {
	repo   string
	fset   *token.FileSet
	pkgs   []*packages.Package
	prog   *ssa.Program
	byPath map[string]*packages.Package
	ssaPkg map[string]*ssa.Package
	specs  *SpecDB
	// all functions by key "<pkgpath>::<relname>"
	funcs map[string]*ssa.Function
}

const modPath = "github.com/feichai0017/NoKV"

func loadEngine(repo string, patterns []string) (*Engine, error) {
	cfg := &packages.Config{
		Mode:       packages.LoadAllSyntax,
		Dir:        repo,
		BuildFlags: []string{"-tags=verif"},
		Env:        append(os.Environ(), "GOFLAGS=-mod=mod", "GOPROXY=off"),
		Tests:      false,
	}
	pkgs, err := packages.Load(cfg, patterns...)
	if err != nil {
		return nil, err
	}
	var errs []string
	packages.Visit(pkgs, nil, func(p *packages.Package) {
		if !strings.HasPrefix(p.PkgPath, modPath) {
			return
		}
		for _, e := range p.Errors {
			errs = append(errs, e.Error())
		}
	})
	if len(errs) > 0 {
		return nil, fmt.Errorf("load errors:\n%s", strings.Join(errs, "\n"))
	}
	prog, spkgs := ssautil.AllPackages(pkgs, ssa.NaiveForm|ssa.GlobalDebug|ssa.InstantiateGenerics)
	prog.Build()
	e := &Engine{repo: repo, pkgs: pkgs, prog: prog, byPath: map[string]*packages.Package{}, ssaPkg: map[string]*ssa.Package{}, funcs: map[string]*ssa.Function{}}
	if len(pkgs) > 0 {
		e.fset = pkgs[0].Fset
	}
	packages.Visit(pkgs, nil, func(p *packages.Package) {
		e.byPath[p.PkgPath] = p
	})
	for _, sp := range spkgs {
		if sp != nil {
			e.ssaPkg[sp.Pkg.Path()] = sp
		}
	}
	for _, sp := range prog.AllPackages() {
		if sp != nil {
			if _, ok := e.ssaPkg[sp.Pkg.Path()]; !ok {
				e.ssaPkg[sp.Pkg.Path()] = sp
			}
		}
	}
	// index functions of repo packages
	for fn := range ssautil.AllFunctions(prog) {
		if fn.Pkg == nil {
			continue
		}
		pp := fn.Pkg.Pkg.Path()
		if !strings.HasPrefix(pp, modPath) {
			continue
		}
		e.funcs[funcKey(fn)] = fn
	}
	e.specs = newSpecDB()
	// read contract comments
	packages.Visit(pkgs, nil, func(p *packages.Package) {
		if !strings.HasPrefix(p.PkgPath, modPath) {
			return
		}
		for _, f := range p.Syntax {
			name := e.fset.Position(f.Pos()).Filename
			if !strings.HasSuffix(name, "verif_contracts.go") {
				continue
			}
			e.specs.readFile(e, p, f)
		}
	})
	e.specs.finalize()
	return e, nil
}

// funcKey gives "<pkgpath>::<name>" where name is like "keyInRange",
// "(*table).Search", "(Lock).Foo", "DecodeLock$1".
func funcKey(fn *ssa.Function) string {
	return fn.Pkg.Pkg.Path() + "::" + funcRelName(fn)
}

func funcRelName(fn *ssa.Function) string {
	if fn.Parent() != nil {
		// closure: name is like "DecodeLock$1"
		p := fn
		for p.Parent() != nil {
			p = p.Parent()
		}
		suffix := strings.TrimPrefix(fn.Name(), p.Name())
		return funcRelName(p) + suffix
	}
	if recv := fn.Signature.Recv(); recv != nil {
		t := recv.Type()
		star := ""
		if pt, ok := t.(*types.Pointer); ok {
			star = "*"
			t = pt.Elem()
		}
		n := "?"
		if nt, ok := t.(*types.Named); ok {
			n = nt.Obj().Name()
		}
		return "(" + star + n + ")." + fn.Name()
	}
	return fn.Name()
}

func (e *Engine) lookupFunc(pkgPath, rel string) *ssa.Function {
	return e.funcs[pkgPath+"::"+rel]
}

func (e *Engine) pos(p token.Pos) string {
	if !p.IsValid() {
		return "-"
	}
	pp := e.fset.Position(p)
	return fmt.Sprintf("%s:%d", strings.TrimPrefix(pp.Filename, e.repo+"/"), pp.Line)
}

// commentLines returns the //@ lines of a file as (text,pos) in order.
type specLine struct {
	text string
	pos  token.Pos
}

func contractLines(f *ast.File) []specLine {
	var out []specLine
	for _, cg := range f.Comments {
		for _, c := range cg.List {
			t := c.Text
			if strings.HasPrefix(t, "//@") {
				out = append(out, specLine{text: strings.TrimRight(t[3:], " \t"), pos: c.Pos()})
			}
		}
	}
	sort.SliceStable(out, func(i, j int) bool { return out[i].pos < out[j].pos })
	return out
}
