package main

import (
	"fmt"
	"go/types"
	"sort"
	"strings"

	"golang.org/x/tools/go/ssa"
)

var defaultSafety = []string{"idx", "slice", "make", "div", "panic", "shift"}

// verifyFunction generates all obligations for fn against its contract.
func (e *Engine) verifyFunction(fn *ssa.Function, spec *FuncSpec) *Gen {
	defTable = map[string]string{}
	g := newGen(e, funcKey(fn))
	a := g.newActivation(fn, true, 0)
	a.spec = spec
	a.safety = map[string]bool{}
	if len(spec.Safety) > 0 {
		for k := range spec.Safety {
			if k != "none" {
				a.safety[k] = true
			}
		}
	} else {
		for _, k := range defaultSafety {
			a.safety[k] = true
		}
	}
	if spec.Tags["decoder"] {
		a.safety["alloc"] = true
		a.safety["nil"] = false
	}
	st := &State{pc: tTrue, cells: map[cellKey]Val{}, heaps: map[string]Term{}, ghosts: map[string]Term{}}
	g.declareConst("ctr0", "Int")
	g.header = append(g.header, "(assert (>= ctr0 1))")
	st.ctr = T("Int", "ctr0")
	a.specVars = map[string]SVal{}
	var inputs []InputVar
	for i, p := range fn.Params {
		name := paramNames(fn)[i]
		v := g.fresh("p_"+mangleShort(name), g.sortOf(p.Type()))
		g.closed(st, v, p.Type())
		a.env[p] = Val{T: v}
		a.params[name] = Val{T: v}
		a.specVars[name] = SVal{T: v, Ty: p.Type()}
		a.specVars[name+"0"] = SVal{T: v, Ty: p.Type()}
		inputs = append(inputs, InputVar{Name: name, GoTy: p.Type(), Term: v})
	}
	for _, fv := range fn.FreeVars {
		v := g.fresh("fv_"+mangleShort(fv.Name()), SLoc)
		g.closed(st, v, fv.Type())
		g.assume(st, and(not(eq(v, nilLoc)), eq(app("Int", "kind", v), T("Int", "0"))))
		// distinct captured variables are distinct memory cells (each its own object)
		for _, other := range fn.FreeVars {
			if ov, ok := a.env[other]; ok && other != fv {
				g.assume(st, not(eq(v, ov.T)))
			}
		}
		a.env[fv] = Val{T: v}
		if et := fv.Type().(*types.Pointer).Elem(); isScalarType(et) {
			g.protected = append(g.protected, protectedLoc{loc: v, ty: et})
			g.trusted["captured scalar variables of a closure under verification keep their value across calls to functions without a contract (they are not reachable from those calls' arguments)"] = true
		}
	}
	// decoder allocation bound
	if spec.AllocVar != "" {
		if sv, ok := a.specVars[spec.AllocVar]; ok && sv.T.Sort == SSlice {
			g.allocBound = &allocBound{input: sLen(sv.T)}
		} else if strings.HasPrefix(spec.AllocVar, "ghost:") {
			// bound given by a spec expression evaluated at entry
			ctx := a.specCtx(st, "alloc bound", false)
			ex, err := parseExpr(strings.TrimPrefix(spec.AllocVar, "ghost:"))
			if err == nil {
				v := ctx.eval(ex)
				if ctx.err == nil {
					g.allocBound = &allocBound{input: ctx.to64(v)}
					// the stream, like every slice, is assumed shorter than 2^40 bytes
					g.assume(st, bvcmp("bvule", g.allocBound.input, bv64(1<<40)))
				}
			}
		}
		if g.allocBound == nil {
			g.unbound = append(g.unbound, fmt.Sprintf("%s: alloc bound %q cannot be bound", a.name, spec.AllocVar))
		}
	}
	// every declared ghost variable exists from the start (so that havocs cover it)
	for _, gv := range e.specs.ghosts {
		if pkg := e.byPath[gv.PkgPath]; pkg != nil {
			if ty, err := resolveTypeIn(g, pkg, gv.Type); err == nil {
				srt := g.sortOf(types.Typ[types.Bool])
				if st0, ok := ty.(*specType); ok {
					srt = st0.sort
				} else {
					srt = g.sortOf(ty)
				}
				g.ghost(st, gv, srt)
			}
		}
	}
	a.entry = st.clone() // provisional (for lets / requires with old-free evaluation)
	// lets
	for _, ld := range spec.Lets {
		ctx := a.specCtx(st, "let "+ld.Name, false)
		v := ctx.eval(ld.E)
		if ctx.err != nil {
			g.unbound = append(g.unbound, ctx.err.Error())
			continue
		}
		a.specVars[ld.Name] = v
	}
	// requires
	for _, cl := range spec.Requires {
		ctx := a.specCtx(st, "requires "+cl.Label, false)
		ctx.old = nil
		t := ctx.boolOf(ctx.eval(cl.E))
		if ctx.err != nil {
			g.unbound = append(g.unbound, ctx.err.Error())
			continue
		}
		g.assume(st, t)
	}
	// package axioms are global facts
	g.addAxioms(a, st)
	a.entry = st.clone()
	g.entrySt = a.entry
	// modifies frame
	if spec.HasMod && !spec.ModAll {
		ctx := a.specCtx(a.entry, "modifies", false)
		locs, _, ranges, err := evalModifies(ctx, spec)
		if err != nil {
			g.unbound = append(g.unbound, err.Error())
		}
		a.frameLocs = locs
		for _, r := range ranges {
			if r.lo.Sort != "ghost" {
				a.frameRanges = append(a.frameRanges, r)
			}
		}
	}
	// vacuity: precondition satisfiable
	cov := g.oblige(st, a.name, "vacuity", "pre", tTrue, spec.Pos)
	cov.Cover = true
	work := st.clone()
	a.run(work)
	// postconditions at every return
	resNames := resultNames(fn.Signature)
	for _, r := range a.rets {
		// locals are visible in postconditions with their values at the return
		ctx := a.specCtx(r.st, "ensures", true)
		for i, n := range resNames {
			if i < len(r.vals) {
				sv := SVal{T: a.asTerm(r.st, r.vals[i], fn.Signature.Results().At(i).Type()), Ty: fn.Signature.Results().At(i).Type()}
				// "ret", "ret1", ... always name the results; the conventional names
				// (result, result1 or the declared names) unless a captured variable or
				// parameter of the same name exists
				alias := "ret"
				if i > 0 {
					alias = fmt.Sprintf("ret%d", i)
				}
				ctx.vars[alias] = sv
				clash := false
				for _, fv := range fn.FreeVars {
					if fv.Name() == n {
						clash = true
					}
				}
				if !clash {
					ctx.vars[n] = sv
				}
			}
		}
		// a body tagged ghost-pure (callers keep their ghost state across the call) must
		// leave every ghost variable unchanged
		if frame, explicit := e.specs.ghostFrame(spec); explicit {
			var gk []string
			for k := range r.st.ghosts {
				if !frame[k] {
					gk = append(gk, k)
				}
			}
			sort.Strings(gk)
			var conj []Term
			for _, k := range gk {
				if e0, ok := a.entry.ghosts[k]; ok && e0.S != r.st.ghosts[k].S {
					conj = append(conj, eq(r.st.ghosts[k], e0))
				}
			}
			if len(conj) > 0 {
				o := g.oblige(r.st, a.name, "post", "ghost-pure", and(conj...), spec.Pos)
				o.Inputs = inputs
			}
		}
		for _, cl := range spec.Ensures {
			c2 := *ctx
			c2.err = nil
			c2.where = a.name + " ensures " + cl.Label
			t := c2.boolOf(c2.eval(cl.E))
			if c2.err != nil {
				g.unbound = append(g.unbound, c2.err.Error())
				continue
			}
			o := g.oblige(r.st, a.name, "post", cl.Label, t, cl.Pos)
			o.Inputs = inputs
		}
	}
	for _, o := range g.obls {
		if o.Inputs == nil {
			o.Inputs = inputs
		}
	}
	if len(a.rets) > 0 {
		// some normal exit must be reachable: one cover query per return site, cheapest first
		for _, rr := range a.rets {
			c := g.oblige(rr.st, a.name, "vacuity", "exit", tTrue, spec.Pos)
			c.Cover = true
			c.NLines = rr.nlines
			c.Inputs = inputs
		}
	} else {
		g.unbound = append(g.unbound, a.name+": no normal return path found")
	}
	return g
}

// addAxioms asserts the package axioms of all contract files as global facts.
func (g *Gen) addAxioms(a *Activation, st *State) {
	for _, ax := range g.eng.specs.axioms {
		pkg := g.eng.byPath[ax.PkgPath]
		// only axioms of packages that the function's package imports or is
		if !g.axiomRelevant(a, ax) {
			continue
		}
		ctx := &SpecCtx{g: g, pkg: pkg, st: st, vars: map[string]SVal{}, where: "axiom " + ax.Name}
		t := ctx.boolOf(ctx.eval(ax.E))
		if ctx.err != nil {
			g.unbound = append(g.unbound, ctx.err.Error())
			continue
		}
		g.header = append(g.header, "(assert "+t.S+") ; axiom "+ax.Name)
		g.trusted["axiom "+shortPkg(ax.PkgPath)+"."+ax.Name] = true
	}
}

func (g *Gen) axiomRelevant(a *Activation, ax *Axiom) bool {
	if a.fn.Pkg == nil {
		return false
	}
	my := a.fn.Pkg.Pkg
	if my.Path() == ax.PkgPath {
		return true
	}
	for _, imp := range my.Imports() {
		if imp.Path() == ax.PkgPath {
			return true
		}
	}
	return false
}

// verifyLemma: a lemma is a closed formula over its parameters.
func (e *Engine) verifyLemma(lm *Lemma) *Gen {
	defTable = map[string]string{}
	g := newGen(e, lm.PkgPath+"::lemma "+lm.Name)
	st := &State{pc: tTrue, cells: map[cellKey]Val{}, heaps: map[string]Term{}, ghosts: map[string]Term{}}
	g.declareConst("ctr0", "Int")
	st.ctr = T("Int", "ctr0")
	pkg := e.byPath[lm.PkgPath]
	ctx := &SpecCtx{g: g, pkg: pkg, st: st, vars: map[string]SVal{}, where: "lemma " + lm.Name}
	for _, p := range lm.Params {
		ty, err := resolveTypeIn(g, pkg, p.Type)
		if err != nil {
			g.unbound = append(g.unbound, err.Error())
			return g
		}
		srt := ctx.sortOfTy(ty)
		v := g.fresh("lp_"+mangleShort(p.Name), srt)
		if _, isSpec := ty.(*specType); !isSpec {
			g.closed(st, v, ty)
		}
		ctx.vars[p.Name] = SVal{T: v, Ty: ty}
	}
	name := shortPkg(lm.PkgPath) + ".lemma " + lm.Name
	for _, cl := range lm.Requires {
		t := ctx.boolOf(ctx.eval(cl.E))
		if ctx.err != nil {
			g.unbound = append(g.unbound, ctx.err.Error())
			return g
		}
		g.assume(st, t)
	}
	cov := g.oblige(st, name, "vacuity", "pre", tTrue, lm.Pos)
	cov.Cover = true
	for _, cl := range lm.Ensures {
		t := ctx.boolOf(ctx.eval(cl.E))
		if ctx.err != nil {
			g.unbound = append(g.unbound, ctx.err.Error())
			ctx.err = nil
			continue
		}
		g.oblige(st, name, "lemma", cl.Label, t, cl.Pos)
	}
	return g
}

var _ = types.Typ

func isScalarType(t types.Type) bool {
	b, ok := t.Underlying().(*types.Basic)
	return ok && b.Info()&(types.IsInteger|types.IsBoolean) != 0
}
