package main

import (
	"fmt"
	"go/constant"
	"go/types"
	"math/big"
	"os"
	"strings"

	"golang.org/x/tools/go/packages"
)

// SVal is a typed spec value.
type SVal struct {
	T     Term
	Ty    types.Type // Go type, or *specType, or nil for untyped integer literal
	Lit   *big.Int   // untyped integer literal
	Tuple []SVal
	Loc   *Term // address of the lvalue, when known (for modifies / &x)
	Dyn   bool  // value must be re-read from memory at Loc in the state of evaluation
}

// specType is a spec-only type.
type specType struct{ name, sort string }

func (s *specType) Underlying() types.Type { return s }
func (s *specType) String() string         { return s.name }

var (
	tyMath  = &specType{"mathint", bvSort(128)}
	tyBSeq  = &specType{"ByteSeq", SBSeq}
	tyInt   = &specType{"Int", "Int"}
	tyLocT  = &specType{"Loc", SLoc}
	tyBoolT = types.Typ[types.Bool]
)

type SpecCtx struct {
	g     *Gen
	pkg   *packages.Package
	st    *State
	old   *State
	vars  map[string]SVal
	act   *Activation // for locals in invariants
	fvAct *Activation // for free variables of a closure under verification
	where string
	err   error
}

func (c *SpecCtx) fail(format string, args ...any) SVal {
	if c.err == nil {
		c.err = fmt.Errorf(format, args...)
	}
	return SVal{T: tTrue, Ty: tyBoolT}
}

func (c *SpecCtx) sortOfTy(t types.Type) string {
	if s, ok := t.(*specType); ok {
		return s.sort
	}
	return c.g.sortOf(t)
}

// resolveType parses a type text in the context of the package.
func (c *SpecCtx) resolveType(text string) (types.Type, error) {
	return resolveTypeIn(c.g, c.pkg, text)
}

func resolveTypeIn(g *Gen, pkg *packages.Package, text string) (types.Type, error) {
	text = strings.TrimSpace(text)
	switch text {
	case "mathint":
		return tyMath, nil
	case "ByteSeq":
		g.useByteSeq()
		return tyBSeq, nil
	case "Int":
		return tyInt, nil
	case "Loc":
		return tyLocT, nil
	}
	if text == "struct{}" {
		return types.NewStruct(nil, nil), nil
	}
	if strings.HasPrefix(text, "map[") {
		depth := 0
		for i := 3; i < len(text); i++ {
			if text[i] == '[' {
				depth++
			} else if text[i] == ']' {
				depth--
				if depth == 0 {
					k, err := resolveTypeIn(g, pkg, text[4:i])
					if err != nil {
						return nil, err
					}
					v, err := resolveTypeIn(g, pkg, text[i+1:])
					if err != nil {
						return nil, err
					}
					return types.NewMap(k, v), nil
				}
			}
		}
	}
	if strings.HasPrefix(text, "[]") {
		el, err := resolveTypeIn(g, pkg, text[2:])
		if err != nil {
			return nil, err
		}
		return types.NewSlice(el), nil
	}
	if strings.HasPrefix(text, "*") {
		el, err := resolveTypeIn(g, pkg, text[1:])
		if err != nil {
			return nil, err
		}
		return types.NewPointer(el), nil
	}
	if obj := types.Universe.Lookup(text); obj != nil {
		if tn, ok := obj.(*types.TypeName); ok {
			return tn.Type(), nil
		}
	}
	if i := strings.Index(text, "."); i > 0 {
		pn, tn := text[:i], text[i+1:]
		for _, imp := range pkg.Imports {
			if imp.Name == pn || strings.HasSuffix(imp.PkgPath, "/"+pn) {
				if obj := imp.Types.Scope().Lookup(tn); obj != nil {
					if t, ok := obj.(*types.TypeName); ok {
						return t.Type(), nil
					}
				}
			}
		}
		// search all loaded packages by name
		for _, p := range g.eng.byPath {
			if p.Name == pn && p.Types != nil {
				if obj := p.Types.Scope().Lookup(tn); obj != nil {
					if t, ok := obj.(*types.TypeName); ok {
						return t.Type(), nil
					}
				}
			}
		}
		return nil, fmt.Errorf("unknown type %s", text)
	}
	if obj := pkg.Types.Scope().Lookup(text); obj != nil {
		if tn, ok := obj.(*types.TypeName); ok {
			return tn.Type(), nil
		}
	}
	return nil, fmt.Errorf("unknown type %s", text)
}

func (c *SpecCtx) boolOf(v SVal) Term {
	if v.T.Sort != SBool {
		c.fail("%s: expected boolean, got %s (%s)", c.where, v.T.Sort, v.T.S)
		return tTrue
	}
	return v.T
}

// unify makes two integer operands the same type/width.
func (c *SpecCtx) unify(x, y SVal) (SVal, SVal) {
	if x.Lit != nil && y.Lit != nil {
		x = c.litTo(x, types.Typ[types.Int])
		y = c.litTo(y, types.Typ[types.Int])
		return x, y
	}
	if x.Lit != nil {
		return c.litTo(x, y.Ty), y
	}
	if y.Lit != nil {
		return x, c.litTo(y, x.Ty)
	}
	return x, y
}

func (c *SpecCtx) litTo(v SVal, t types.Type) SVal {
	if t == nil {
		t = types.Typ[types.Int]
	}
	srt := c.sortOfTy(t)
	if srt == "Int" {
		s := v.Lit.String()
		if v.Lit.Sign() < 0 {
			s = "(- " + new(big.Int).Neg(v.Lit).String() + ")"
		}
		return SVal{T: T("Int", s), Ty: t}
	}
	n, ok := isBV(srt)
	if !ok {
		c.fail("%s: integer literal used as %s", c.where, srt)
		return SVal{T: bv64(0), Ty: types.Typ[types.Int]}
	}
	m := new(big.Int).Set(v.Lit)
	mod := new(big.Int).Lsh(big.NewInt(1), uint(n))
	m.Mod(m, mod)
	if m.Sign() < 0 {
		m.Add(m, mod)
	}
	return SVal{T: T(srt, fmt.Sprintf("(_ bv%s %d)", m.String(), n)), Ty: t}
}

func specSigned(t types.Type) bool {
	if t == tyMath {
		return true
	}
	if _, ok := t.(*specType); ok {
		return false
	}
	return isSigned(t)
}

func (c *SpecCtx) eval(e Expr) SVal {
	g := c.g
	switch e := e.(type) {
	case *EBool:
		if e.Val {
			return SVal{T: tTrue, Ty: tyBoolT}
		}
		return SVal{T: tFalse, Ty: tyBoolT}
	case *EInt:
		n := new(big.Int)
		if _, ok := n.SetString(e.Text, 0); !ok {
			return c.fail("bad integer %s", e.Text)
		}
		return SVal{Lit: n}
	case *EStr:
		return SVal{T: g.strConst(c.st, e.Val), Ty: types.Typ[types.String]}
	case *ENil:
		return SVal{T: nilLoc, Ty: types.Typ[types.UntypedNil]}
	case *EIdent:
		return c.ident(e.Name)
	case *EOld:
		if c.old == nil {
			return c.fail("%s: old() not available here", c.where)
		}
		sub := *c
		sub.st = c.old
		v := sub.eval(e.X)
		if sub.err != nil && c.err == nil {
			c.err = sub.err
		}
		return v
	case *EUnary:
		return c.unary(e)
	case *EBinary:
		return c.binary(e)
	case *ECond:
		cnd := c.boolOf(c.eval(e.C))
		x, y := c.unify(c.eval(e.A), c.eval(e.B))
		return SVal{T: ite(cnd, x.T, y.T), Ty: x.Ty}
	case *ESel:
		return c.selector(e)
	case *EIndex:
		return c.index(e)
	case *ESlice:
		return c.sliceExpr(e)
	case *ECall:
		return c.callExpr(e)
	case *EQuant:
		return c.quant(e)
	}
	return c.fail("unsupported spec expression %T", e)
}

func (c *SpecCtx) ident(name string) SVal {
	g := c.g
	if v, ok := c.vars[name]; ok {
		if v.Dyn && v.Loc != nil {
			// a variable living in memory (captured by a closure): read it in the current state
			return SVal{T: g.load(c.st, *v.Loc, v.Ty), Ty: v.Ty, Loc: v.Loc, Dyn: true}
		}
		return v
	}
	if c.fvAct != nil {
		if v, ok := c.fvAct.freeVarByName(c.st, name); ok {
			return v
		}
	}
	// locals of the activation (current values)
	if c.act != nil {
		if v, ok := c.act.localByName(c.st, name); ok {
			return v
		}
	}
	// ghost variable
	if gv := g.eng.specs.findGhost(c.pkg.PkgPath, name); gv != nil {
		ty, err := c.resolveType(gv.Type)
		if err != nil {
			return c.fail("%v", err)
		}
		return SVal{T: g.ghost(c.st, gv, c.sortOfTy(ty)), Ty: ty}
	}
	// package-level constant or variable
	if obj := c.pkg.Types.Scope().Lookup(name); obj != nil {
		return c.object(obj)
	}
	if obj := types.Universe.Lookup(name); obj != nil {
		if cn, ok := obj.(*types.Const); ok {
			return c.constObj(cn)
		}
	}
	return c.fail("%s: unknown identifier %q", c.where, name)
}

func (c *SpecCtx) object(obj types.Object) SVal {
	g := c.g
	switch o := obj.(type) {
	case *types.Const:
		return c.constObj(o)
	case *types.Var:
		// package-level variable: read from heap
		sp := g.eng.ssaPkg[o.Pkg().Path()]
		if sp == nil {
			return c.fail("no ssa package for %s", o.Pkg().Path())
		}
		gl := sp.Var(o.Name())
		if gl == nil {
			return c.fail("no global %s", o.Name())
		}
		loc := g.globalLoc(gl)
		if types.Identical(o.Type(), types.Universe.Lookup("error").Type()) {
			return SVal{T: T(SIface, "errc_"+mangle(o.Pkg().Path()+"."+o.Name())), Ty: o.Type()}
		}
		return SVal{T: g.load(c.st, loc, o.Type()), Ty: o.Type(), Loc: &loc}
	}
	return c.fail("%s: unsupported object %s", c.where, obj)
}

func (c *SpecCtx) constObj(o *types.Const) SVal {
	v := o.Val()
	switch v.Kind() {
	case constant.Bool:
		if constant.BoolVal(v) {
			return SVal{T: tTrue, Ty: tyBoolT}
		}
		return SVal{T: tFalse, Ty: tyBoolT}
	case constant.Int:
		n, _ := new(big.Int).SetString(v.ExactString(), 10)
		if b, ok := o.Type().Underlying().(*types.Basic); ok && b.Info()&types.IsUntyped == 0 {
			return c.litTo(SVal{Lit: n}, o.Type())
		}
		return SVal{Lit: n}
	case constant.String:
		return SVal{T: c.g.strConst(c.st, constant.StringVal(v)), Ty: types.Typ[types.String]}
	}
	return c.fail("unsupported constant %s", o.Name())
}

func (c *SpecCtx) unary(e *EUnary) SVal {
	g := c.g
	x := c.eval(e.X)
	switch e.Op {
	case "!":
		return SVal{T: not(c.boolOf(x)), Ty: tyBoolT}
	case "-":
		if x.Lit != nil {
			return SVal{Lit: new(big.Int).Neg(x.Lit)}
		}
		if x.T.Sort == "Int" {
			return SVal{T: app("Int", "-", x.T), Ty: x.Ty}
		}
		return SVal{T: app(x.T.Sort, "bvneg", x.T), Ty: x.Ty}
	case "^":
		if x.Lit != nil {
			return SVal{Lit: new(big.Int).Not(x.Lit)}
		}
		return SVal{T: app(x.T.Sort, "bvnot", x.T), Ty: x.Ty}
	case "*":
		pt, ok := x.Ty.Underlying().(*types.Pointer)
		if !ok {
			return c.fail("%s: deref of non-pointer %s", c.where, e.X)
		}
		loc := x.T
		return SVal{T: g.load(c.st, loc, pt.Elem()), Ty: pt.Elem(), Loc: &loc}
	case "&":
		if x.Loc == nil {
			return c.fail("%s: cannot take address of %s", c.where, e.X)
		}
		return SVal{T: *x.Loc, Ty: types.NewPointer(x.Ty)}
	}
	return c.fail("unsupported unary %s", e.Op)
}

func (c *SpecCtx) binary(e *EBinary) SVal {
	switch e.Op {
	case "&&":
		return SVal{T: and(c.boolOf(c.eval(e.X)), c.boolOf(c.eval(e.Y))), Ty: tyBoolT}
	case "||":
		return SVal{T: or(c.boolOf(c.eval(e.X)), c.boolOf(c.eval(e.Y))), Ty: tyBoolT}
	case "==>":
		return SVal{T: implies(c.boolOf(c.eval(e.X)), c.boolOf(c.eval(e.Y))), Ty: tyBoolT}
	case "<==>":
		return SVal{T: eq(c.boolOf(c.eval(e.X)), c.boolOf(c.eval(e.Y))), Ty: tyBoolT}
	}
	x, y := c.unify(c.eval(e.X), c.eval(e.Y))
	if c.err != nil {
		return SVal{T: tTrue, Ty: tyBoolT}
	}
	// nil comparisons
	if isNilTy(x.Ty) && !isNilTy(y.Ty) {
		x = c.nilOf(y)
	} else if isNilTy(y.Ty) && !isNilTy(x.Ty) {
		y = c.nilOf(x)
	}
	switch e.Op {
	case "==", "!=":
		var t Term
		if x.T.Sort == SSlice && y.T.Sort == SSlice && (isStringTy(x.Ty) || isStringTy(y.Ty)) {
			fake := &Activation{g: c.g}
			t = fake.strEq(c.st, x.T, y.T)
		} else if x.T.Sort == SSlice && isNilSliceTerm(y.T) {
			t = eq(sArr(x.T), nilLoc)
		} else if y.T.Sort == SSlice && isNilSliceTerm(x.T) {
			t = eq(sArr(y.T), nilLoc)
		} else {
			if x.T.Sort != y.T.Sort {
				return c.fail("%s: comparing %s with %s in %s", c.where, x.T.Sort, y.T.Sort, e)
			}
			t = eq(x.T, y.T)
		}
		if e.Op == "!=" {
			t = not(t)
		}
		return SVal{T: t, Ty: tyBoolT}
	}
	if x.T.Sort != y.T.Sort {
		return c.fail("%s: operands of %s have sorts %s and %s in %s", c.where, e.Op, x.T.Sort, y.T.Sort, e)
	}
	signed := specSigned(x.Ty)
	if x.T.Sort == "Int" {
		switch e.Op {
		case "<", "<=", ">", ">=":
			return SVal{T: app(SBool, e.Op, x.T, y.T), Ty: tyBoolT}
		case "+", "-", "*":
			return SVal{T: app("Int", e.Op, x.T, y.T), Ty: x.Ty}
		case "/":
			return SVal{T: app("Int", "div", x.T, y.T), Ty: x.Ty}
		case "%":
			return SVal{T: app("Int", "mod", x.T, y.T), Ty: x.Ty}
		}
	}
	if _, ok := isBV(x.T.Sort); !ok {
		return c.fail("%s: operator %s on sort %s", c.where, e.Op, x.T.Sort)
	}
	pick := func(s, u string) string {
		if signed {
			return s
		}
		return u
	}
	switch e.Op {
	case "<":
		return SVal{T: bvcmp(pick("bvslt", "bvult"), x.T, y.T), Ty: tyBoolT}
	case "<=":
		return SVal{T: bvcmp(pick("bvsle", "bvule"), x.T, y.T), Ty: tyBoolT}
	case ">":
		return SVal{T: bvcmp(pick("bvsgt", "bvugt"), x.T, y.T), Ty: tyBoolT}
	case ">=":
		return SVal{T: bvcmp(pick("bvsge", "bvuge"), x.T, y.T), Ty: tyBoolT}
	case "+":
		return SVal{T: bvop("bvadd", x.T, y.T), Ty: x.Ty}
	case "-":
		return SVal{T: bvop("bvsub", x.T, y.T), Ty: x.Ty}
	case "*":
		return SVal{T: bvop("bvmul", x.T, y.T), Ty: x.Ty}
	case "/":
		return SVal{T: c.g.divConst(pick("bvsdiv", "bvudiv"), x.T, y.T), Ty: x.Ty}
	case "%":
		return SVal{T: c.g.divConst(pick("bvsrem", "bvurem"), x.T, y.T), Ty: x.Ty}
	case "&":
		return SVal{T: bvop("bvand", x.T, y.T), Ty: x.Ty}
	case "|":
		return SVal{T: bvop("bvor", x.T, y.T), Ty: x.Ty}
	case "^":
		return SVal{T: bvop("bvxor", x.T, y.T), Ty: x.Ty}
	case "<<":
		return SVal{T: bvop("bvshl", x.T, y.T), Ty: x.Ty}
	case ">>":
		return SVal{T: bvop(pick("bvashr", "bvlshr"), x.T, y.T), Ty: x.Ty}
	}
	return c.fail("unsupported operator %s", e.Op)
}

func isNilTy(t types.Type) bool {
	b, ok := t.(*types.Basic)
	return ok && b.Kind() == types.UntypedNil
}

func isStringTy(t types.Type) bool {
	if t == nil {
		return false
	}
	b, ok := t.Underlying().(*types.Basic)
	return ok && b.Info()&types.IsString != 0
}

func isNilSliceTerm(t Term) bool { return t.S == nilSlice.S }

func (c *SpecCtx) nilOf(other SVal) SVal {
	switch other.T.Sort {
	case SLoc:
		return SVal{T: nilLoc, Ty: other.Ty}
	case SIface:
		return SVal{T: nilIface, Ty: other.Ty}
	case SSlice:
		return SVal{T: nilSlice, Ty: other.Ty}
	case SFn:
		return SVal{T: T(SFn, "nil_fn"), Ty: other.Ty}
	}
	return other
}

func (c *SpecCtx) selector(e *ESel) SVal {
	g := c.g
	// qualified identifier pkg.Name
	if id, ok := e.X.(*EIdent); ok {
		if _, isVar := c.vars[id.Name]; !isVar {
			if c.act == nil || !c.act.hasLocal(id.Name) {
				if p := c.findPkg(id.Name); p != nil {
					obj := p.Types.Scope().Lookup(e.Name)
					if obj == nil {
						// a ghost variable of another package
						if gv := g.eng.specs.findGhost(p.PkgPath, e.Name); gv != nil {
							ty, err := resolveTypeIn(g, p, gv.Type)
							if err != nil {
								return c.fail("%v", err)
							}
							return SVal{T: g.ghost(c.st, gv, c.sortOfTy(ty)), Ty: ty}
						}
						return c.fail("%s: %s.%s not found", c.where, id.Name, e.Name)
					}
					return c.object(obj)
				}
			}
		}
	}
	x := c.eval(e.X)
	if c.err != nil {
		return x
	}
	t := x.Ty
	if t == nil {
		return c.fail("%s: selector on untyped %s", c.where, e.X)
	}
	// auto-deref
	var base *Term
	if pt, ok := t.Underlying().(*types.Pointer); ok {
		loc := x.T
		base = &loc
		t = pt.Elem()
	} else if x.Loc != nil {
		base = x.Loc
	}
	st, ok := t.Underlying().(*types.Struct)
	if !ok {
		return c.fail("%s: selector .%s on non-struct %s", c.where, e.Name, t)
	}
	// find field, including promoted through embedded structs (one level search)
	idx, ft, path := findField(st, e.Name)
	if idx < 0 {
		return c.fail("%s: no field %s in %s", c.where, e.Name, t)
	}
	if len(path) > 1 {
		// embedded path: evaluate step by step
		cur := SVal{T: x.T, Ty: x.Ty, Loc: x.Loc}
		for _, name := range path {
			sub := *c
			sub.vars = map[string]SVal{"__sel": cur}
			for k, v := range c.vars {
				sub.vars[k] = v
			}
			cur = sub.selector(&ESel{X: &EIdent{"__sel"}, Name: name})
			if sub.err != nil {
				c.err = sub.err
				return cur
			}
		}
		return cur
	}
	if base != nil {
		floc := g.fldLoc(*base, t, idx)
		return SVal{T: g.load(c.st, floc, ft), Ty: ft, Loc: &floc}
	}
	si := g.structInfoOf(t)
	return SVal{T: app(si.fsorts[idx], si.accs[idx], x.T), Ty: ft}
}

func findField(st *types.Struct, name string) (int, types.Type, []string) {
	for i := 0; i < st.NumFields(); i++ {
		if st.Field(i).Name() == name {
			return i, st.Field(i).Type(), []string{name}
		}
	}
	for i := 0; i < st.NumFields(); i++ {
		f := st.Field(i)
		if !f.Embedded() {
			continue
		}
		ft := f.Type()
		if p, ok := ft.Underlying().(*types.Pointer); ok {
			ft = p.Elem()
		}
		if s2, ok := ft.Underlying().(*types.Struct); ok {
			if j, t2, p2 := findField(s2, name); j >= 0 {
				return j, t2, append([]string{f.Name()}, p2...)
			}
		}
	}
	return -1, nil, nil
}

func (c *SpecCtx) findPkg(name string) *packages.Package {
	for _, imp := range c.pkg.Imports {
		if imp.Name == name {
			return imp
		}
	}
	for _, p := range c.g.eng.byPath {
		if p.Name == name && strings.HasPrefix(p.PkgPath, modPath) {
			return p
		}
	}
	return nil
}

func (c *SpecCtx) to64(v SVal) Term {
	if v.Lit != nil {
		return c.litTo(v, types.Typ[types.Int]).T
	}
	n, ok := isBV(v.T.Sort)
	if !ok {
		c.fail("%s: index is not an integer", c.where)
		return bv64(0)
	}
	if n == 64 {
		return v.T
	}
	if specSigned(v.Ty) {
		return sext(v.T, 64)
	}
	return zext(v.T, 64)
}

func (c *SpecCtx) index(e *EIndex) SVal {
	g := c.g
	x := c.eval(e.X)
	i := c.eval(e.I)
	if c.err != nil {
		return x
	}
	if x.Ty == tyBSeq {
		return SVal{T: app(bvSort(8), "bs_at", x.T, c.to64(i)), Ty: types.Typ[types.Uint8]}
	}
	switch u := x.Ty.Underlying().(type) {
	case *types.Slice:
		loc := elemLoc(sArr(x.T), bvop("bvadd", sOff(x.T), c.to64(i)))
		return SVal{T: g.load(c.st, loc, u.Elem()), Ty: u.Elem(), Loc: &loc}
	case *types.Basic:
		loc := elemLoc(sArr(x.T), bvop("bvadd", sOff(x.T), c.to64(i)))
		return SVal{T: g.load(c.st, loc, types.Typ[types.Uint8]), Ty: types.Typ[types.Uint8]}
	case *types.Array:
		if x.Loc != nil {
			loc := elemLoc(*x.Loc, c.to64(i))
			return SVal{T: g.load(c.st, loc, u.Elem()), Ty: u.Elem(), Loc: &loc}
		}
		return SVal{T: sel(x.T, c.to64(i)), Ty: u.Elem()}
	case *types.Map:
		k := i
		if k.Lit != nil {
			k = c.litTo(k, u.Key())
		}
		kt := k.T
		if isStringTy(u.Key()) {
			kt = g.absBytes(c.st, kt)
		}
		v := sel(sel(g.heap(c.st, g.mapValSort(u)), x.T), kt)
		return SVal{T: v, Ty: u.Elem()}
	case *types.Pointer:
		if arr, ok := u.Elem().Underlying().(*types.Array); ok {
			loc := elemLoc(x.T, c.to64(i))
			return SVal{T: g.load(c.st, loc, arr.Elem()), Ty: arr.Elem(), Loc: &loc}
		}
	}
	return c.fail("%s: cannot index %s", c.where, e.X)
}

func (c *SpecCtx) sliceExpr(e *ESlice) SVal {
	x := c.eval(e.X)
	if c.err != nil {
		return x
	}
	if x.T.Sort != SSlice {
		return c.fail("%s: cannot slice %s", c.where, e.X)
	}
	lo := bv64(0)
	if e.Lo != nil {
		lo = c.to64(c.eval(e.Lo))
	}
	hi := sLen(x.T)
	if e.Hi != nil {
		hi = c.to64(c.eval(e.Hi))
	}
	return SVal{T: mkSlice(sArr(x.T), bvop("bvadd", sOff(x.T), lo), bvop("bvsub", hi, lo), bvop("bvsub", sCap(x.T), lo)), Ty: x.Ty}
}

func (c *SpecCtx) quant(e *EQuant) SVal {
	g := c.g
	g.quantified = true
	sub := *c
	sub.vars = map[string]SVal{}
	for k, v := range c.vars {
		sub.vars[k] = v
	}
	var decls []string
	var guards []Term
	for _, qv := range e.Vars {
		ty, err := c.resolveType(qv.Type)
		if err != nil {
			return c.fail("%s: %v", c.where, err)
		}
		g.nfresh++
		name := fmt.Sprintf("q_%s_%d", mangleShort(qv.Name), g.nfresh)
		srt := c.sortOfTy(ty)
		decls = append(decls, fmt.Sprintf("(%s %s)", name, srt))
		sub.vars[qv.Name] = SVal{T: T(srt, name), Ty: ty}
		_ = guards
	}
	g.noDefine++
	body := sub.boolOf(sub.eval(e.Body))
	g.noDefine--
	if sub.err != nil && c.err == nil {
		c.err = sub.err
	}
	q := "exists"
	if e.Forall {
		q = "forall"
	}
	var names []string
	for _, qv := range e.Vars {
		names = append(names, sub.vars[qv.Name].T.S)
	}
	if pats := inferPatterns(body.S, names); len(pats) > 0 {
		return SVal{T: T(SBool, fmt.Sprintf("(%s (%s) (! %s %s))", q, strings.Join(decls, " "), body.S, strings.Join(pats, " "))), Ty: tyBoolT}
	}
	return SVal{T: T(SBool, fmt.Sprintf("(%s (%s) %s)", q, strings.Join(decls, " "), body.S)), Ty: tyBoolT}
}

func (c *SpecCtx) callExpr(e *ECall) SVal {
	g := c.g
	name := ""
	switch f := e.Fun.(type) {
	case *EIdent:
		name = f.Name
	case *ESel:
		if id, ok := f.X.(*EIdent); ok {
			name = id.Name + "." + f.Name
		}
	}
	argv := func(i int) SVal { return c.eval(e.Args[i]) }
	need := func(n int) bool {
		if len(e.Args) != n {
			c.fail("%s: %s expects %d arguments", c.where, name, n)
			return false
		}
		return true
	}
	switch name {
	case "len":
		if !need(1) {
			return SVal{}
		}
		x := argv(0)
		if x.Ty == tyBSeq {
			return SVal{T: app(bvSort(64), "bs_len", x.T), Ty: types.Typ[types.Int]}
		}
		if x.T.Sort == SSlice {
			return SVal{T: sLen(x.T), Ty: types.Typ[types.Int]}
		}
		if arr, ok := x.Ty.Underlying().(*types.Array); ok {
			return SVal{T: bv64(uint64(arr.Len())), Ty: types.Typ[types.Int]}
		}
		return c.fail("%s: len of %s", c.where, e.Args[0])
	case "cap":
		if !need(1) {
			return SVal{}
		}
		return SVal{T: sCap(argv(0).T), Ty: types.Typ[types.Int]}
	case "math":
		if !need(1) {
			return SVal{}
		}
		x := argv(0)
		if x.Lit != nil {
			return c.litTo(x, tyMath)
		}
		if specSigned(x.Ty) {
			return SVal{T: sext(x.T, 128), Ty: tyMath}
		}
		return SVal{T: zext(x.T, 128), Ty: tyMath}
	case "bs":
		if !need(1) {
			return SVal{}
		}
		x := argv(0)
		if x.T.Sort != SSlice {
			return c.fail("%s: bs() of non-slice", c.where)
		}
		return SVal{T: g.absBytes(c.st, x.T), Ty: tyBSeq}
	case "crc32c":
		// crc32c(x): the (uninterpreted) CRC-32 of the byte contents of x, the same
		// function the model of hash/crc32.Checksum and of the pooled hashers uses
		if !need(1) {
			return SVal{}
		}
		x := argv(0)
		xs := x.T
		if x.Ty != tyBSeq {
			xs = g.absBytes(c.st, xs)
		}
		g.useByteSeq()
		g.declareFun("crc32c", []string{SBSeq}, bvSort(32))
		return SVal{T: app(bvSort(32), "crc32c", xs), Ty: types.Typ[types.Uint32]}
	case "be32":
		// be32(x): big-endian uint32 in the first four bytes of x (meaningful when len(x) >= 4)
		if !need(1) {
			return SVal{}
		}
		x := argv(0)
		var res Term
		for i := 0; i < 4; i++ {
			b := g.byteAt(c.st, x.T, bv64(uint64(i)))
			if i == 0 {
				res = b
			} else {
				res = concatBV(res, b)
			}
		}
		return SVal{T: res, Ty: types.Typ[types.Uint32]}
	case "bcmp":
		if !need(2) {
			return SVal{}
		}
		x, y := argv(0), argv(1)
		xs, ys := x.T, y.T
		if x.Ty != tyBSeq {
			xs = g.absBytes(c.st, xs)
		}
		if y.Ty != tyBSeq {
			ys = g.absBytes(c.st, ys)
		}
		g.useByteSeq()
		return SVal{T: app(bvSort(64), "bs_cmp", xs, ys), Ty: types.Typ[types.Int]}
	case "beq":
		if !need(2) {
			return SVal{}
		}
		x, y := argv(0), argv(1)
		fake := &Activation{g: g}
		// content equality must imply equality of the abstractions: force the
		// extensionality axiom of ByteSeq into the query
		g.useByteSeq()
		g.noteAbsHeap("$beq-1")
		g.noteAbsHeap("$beq-2")
		return SVal{T: fake.strEq(c.st, x.T, y.T), Ty: tyBoolT}
	case "erris":
		// erris(err, target): errors.Is(err, target), the same uninterpreted relation the
		// model of errors.Is uses (reflexive; a nil err matches only a nil target)
		if !need(2) {
			return SVal{}
		}
		{
			x, y := argv(0), argv(1)
			if x.T.Sort != SIface || y.T.Sort != SIface {
				return c.fail("%s: erris() needs two error values", c.where)
			}
			g.declareFun("err_is", []string{SIface, SIface}, SBool)
			return SVal{T: and(or(eq(x.T, y.T), app(SBool, "err_is", x.T, y.T)), not(eq(x.T, nilIface))), Ty: tyBoolT}
		}
	case "dynptr":
		// dynptr(i): the pointer held by interface value i (its dynamic value when that is a
		// pointer); `dynptr(r) != nil` excludes typed-nil interface values
		if !need(1) {
			return SVal{}
		}
		{
			x := argv(0)
			if x.T.Sort != SIface {
				return c.fail("%s: dynptr() of non-interface", c.where)
			}
			return SVal{T: app(SLoc, "iface_loc", x.T), Ty: types.Typ[types.UnsafePointer]}
		}
	case "isnil":
		if !need(1) {
			return SVal{}
		}
		x := argv(0)
		return SVal{T: eq(x.T, c.nilOf(x).T), Ty: tyBoolT}
	case "fresh":
		// fresh(p): p was allocated during this call
		if !need(1) {
			return SVal{}
		}
		x := argv(0)
		if c.old == nil {
			return c.fail("%s: fresh() needs an entry state", c.where)
		}
		l := x.T
		if l.Sort == SSlice {
			l = sArr(l)
		}
		return SVal{T: app(SBool, ">", app("Int", "root", l), c.old.ctr), Ty: tyBoolT}
	case "trim", "lower", "upper":
		// uninterpreted content functions matching strings.TrimSpace / ToLower / ToUpper
		if !need(1) {
			return SVal{}
		}
		x := argv(0)
		xs := x.T
		if x.Ty != tyBSeq {
			xs = g.absBytes(c.st, xs)
		}
		fn := map[string]string{"trim": "str_trimspace", "lower": "str_tolower", "upper": "str_toupper"}[name]
		g.useByteSeq()
		g.declareFun(fn, []string{SBSeq}, SBSeq)
		return SVal{T: app(SBSeq, fn, xs), Ty: tyBSeq}
	case "contains", "hasprefix", "equalfold":
		if !need(2) {
			return SVal{}
		}
		x, y := argv(0), argv(1)
		xs, ys := x.T, y.T
		if x.Ty != tyBSeq {
			xs = g.absBytes(c.st, xs)
		}
		if y.Ty != tyBSeq {
			ys = g.absBytes(c.st, ys)
		}
		fn := "str_" + name
		g.useByteSeq()
		g.declareFun(fn, []string{SBSeq, SBSeq}, SBool)
		return SVal{T: app(SBool, fn, xs, ys), Ty: tyBoolT}
	case "avail":
		// avail(r): ghost number of unread bytes available on the stream behind reader r
		if !need(1) {
			return SVal{}
		}
		x := argv(0)
		l := x.T
		if l.Sort == SIface {
			l = app(SLoc, "iface_loc", l)
		}
		return SVal{T: sel(g.heap(c.st, "Avail"), l), Ty: types.Typ[types.Uint64]}
	case "held":
		if !need(1) {
			return SVal{}
		}
		x := argv(0)
		l := x.T
		if x.Loc != nil && x.T.Sort != SLoc {
			l = *x.Loc
		}
		return SVal{T: sel(g.heap(c.st, "Held"), l), Ty: tyBoolT}
	case "seen":
		// seen(k): the current map range loop has already visited key k
		if !need(1) {
			return SVal{}
		}
		if c.act == nil {
			return c.fail("%s: seen() outside a function", c.where)
		}
		k := argv(0)
		for _, it := range c.act.iters {
			if it.isStr {
				continue
			}
			seen := c.st.cells[it.seenKey].T
			if !strings.HasPrefix(seen.Sort, "(Array ") {
				continue // this iterator has not started in the current state
			}
			kk := k
			if kk.Lit != nil {
				kk = c.litTo(kk, it.mt.Key())
			}
			kt := kk.T
			if isStringTy(it.mt.Key()) && kk.Ty != tyBSeq {
				kt = g.absBytes(c.st, kt)
			}
			if arrayIdxSort(seen.Sort) == kt.Sort {
				return SVal{T: sel(seen, kt), Ty: tyBoolT}
			}
		}
		return c.fail("%s: no map range iterator for seen()", c.where)
	case "has":
		// has(m, k): map membership
		if len(e.Args) == 2 {
			m := argv(0)
			if mt, ok := m.Ty.Underlying().(*types.Map); ok {
				k := argv(1)
				if k.Lit != nil {
					k = c.litTo(k, mt.Key())
				}
				kt := k.T
				if isStringTy(mt.Key()) && k.Ty != tyBSeq {
					kt = g.absBytes(c.st, kt)
				}
				return SVal{T: and(not(eq(m.T, nilLoc)), sel(sel(g.heap(c.st, g.mapHasSort(mt)), m.T), kt)), Ty: tyBoolT}
			}
		}
	}
	// integer conversions
	if len(e.Args) == 1 {
		if obj := types.Universe.Lookup(name); obj != nil {
			if tn, ok := obj.(*types.TypeName); ok && isInteger(tn.Type()) {
				x := argv(0)
				if x.Lit != nil {
					return c.litTo(x, tn.Type())
				}
				bits := intBits(tn.Type().Underlying().(*types.Basic))
				if x.Ty == tyMath || specSigned(x.Ty) {
					return SVal{T: sext(x.T, bits), Ty: tn.Type()}
				}
				return SVal{T: zext(x.T, bits), Ty: tn.Type()}
			}
		}
	}
	// spec function
	if sf := g.eng.specs.findSpecFunc(c.pkg.PkgPath, lastDot(name)); sf != nil {
		return c.applySpecFunc(sf, e)
	}
	// pure Go function or method of the program (loop-free accessors such as protobuf
	// getters): evaluated by symbolic inlining of its real body
	if v, ok := c.callGo(e); ok {
		return v
	}
	return c.fail("%s: unknown function %q in spec", c.where, name)
}

func lastDot(s string) string {
	if i := strings.LastIndex(s, "."); i >= 0 {
		return s[i+1:]
	}
	return s
}

func (c *SpecCtx) applySpecFunc(sf *SpecFunc, e *ECall) SVal {
	g := c.g
	if len(e.Args) != len(sf.Params) {
		return c.fail("%s: %s expects %d arguments", c.where, sf.Name, len(sf.Params))
	}
	sfPkg := g.eng.byPath[sf.PkgPath]
	var args []SVal
	var ptys []types.Type
	for i, p := range sf.Params {
		ty, err := resolveTypeIn(g, sfPkg, p.Type)
		if err != nil {
			return c.fail("%s: spec func %s: %v", c.where, sf.Name, err)
		}
		v := c.eval(e.Args[i])
		if v.Lit != nil {
			v = c.litTo(v, ty)
		}
		if isNilTy(v.Ty) {
			v = c.nilOf(SVal{T: T(c.sortOfTy(ty), ""), Ty: ty})
		}
		// implicit abstraction []byte/string -> ByteSeq
		if ty == tyBSeq && v.Ty != tyBSeq && v.T.Sort == SSlice {
			v = SVal{T: g.absBytes(c.st, v.T), Ty: tyBSeq}
		}
		if v.T.Sort != c.sortOfTy(ty) && c.err == nil {
			return c.fail("%s: argument %d of %s has sort %s, want %s", c.where, i+1, sf.Name, v.T.Sort, c.sortOfTy(ty))
		}
		args = append(args, v)
		ptys = append(ptys, ty)
	}
	var rty types.Type = tyBoolT
	if sf.Result != "" {
		t, err := resolveTypeIn(g, sfPkg, sf.Result)
		if err != nil {
			return c.fail("%s: spec func %s result: %v", c.where, sf.Name, err)
		}
		rty = t
	}
	if sf.Body != nil {
		// defined: emitted once as an SMT function whose parameters are the declared
		// ones plus one array per heap sort the body reads (the state it is applied in)
		key := sf.PkgPath + "::" + sf.Name
		def := g.sfDefs[key]
		if def == nil {
			if g.specDepth > 8 {
				return c.fail("%s: spec function recursion too deep (%s)", c.where, sf.Name)
			}
			symSt := &State{pc: tTrue, cells: map[cellKey]Val{}, heaps: map[string]Term{}, ghosts: map[string]Term{}, ctr: T("Int", "0"), symHeaps: &symHeapRec{}}
			sub := &SpecCtx{g: g, pkg: sfPkg, st: symSt, vars: map[string]SVal{}, where: "spec func " + sf.Name}
			var formals []string
			for i, p := range sf.Params {
				fn := "sfp_" + mangleShort(p.Name)
				sub.vars[p.Name] = SVal{T: T(c.sortOfTy(ptys[i]), fn), Ty: ptys[i]}
				formals = append(formals, fmt.Sprintf("(%s %s)", fn, c.sortOfTy(ptys[i])))
			}
			g.specDepth++
			g.noDefine++
			v := sub.eval(sf.Body)
			g.noDefine--
			g.specDepth--
			if sub.err != nil {
				if c.err == nil {
					c.err = sub.err
				}
				return SVal{T: tTrue, Ty: tyBoolT}
			}
			if v.Lit != nil {
				v = sub.litTo(v, rty)
			}
			def = &sfDef{name: "sfd_" + mangle(shortPkg(sf.PkgPath)+"."+sf.Name), heapSorts: symSt.symHeaps.sorts}
			for _, hs := range def.heapSorts {
				es := hs
				switch hs {
				case "Held":
					es = SBool
				case "Avail":
					es = bvSort(64)
				}
				formals = append(formals, fmt.Sprintf("(Hp_%s %s)", mangle(hs), arraySort(SLoc, es)))
			}
			if (strings.Contains(v.T.S, "(forall ") || strings.Contains(v.T.S, "(exists ")) && os.Getenv("GOVC_SF_MACRO") == "" {
				// quantified body: declare the function and give its definition as an
				// axiom triggered on applications, so that the solver unfolds it lazily
				var sorts, names []string
				for _, f := range formals {
					p := splitArgs(f)
					names = append(names, p[0])
					sorts = append(sorts, strings.TrimSpace(strings.TrimSuffix(strings.TrimPrefix(f, "("+p[0]+" "), ")")))
				}
				g.header = append(g.header, fmt.Sprintf("(declare-fun %s (%s) %s)", def.name, strings.Join(sorts, " "), c.sortOfTy(rty)))
				appl := "(" + def.name + " " + strings.Join(names, " ") + ")"
				// kept apart from the header: a query includes the axiom only when it
				// mentions the function (and never in the light proof attempt)
				g.sfAxioms = append(g.sfAxioms, sfAxiom{name: def.name, text: fmt.Sprintf("(assert (forall (%s) (! (= %s %s) :pattern (%s))))", strings.Join(formals, " "), appl, v.T.S, appl)})
				g.quantified = true
			} else {
				g.header = append(g.header, fmt.Sprintf("(define-fun %s (%s) %s %s)", def.name, strings.Join(formals, " "), c.sortOfTy(rty), v.T.S))
			}
			if g.sfDefs == nil {
				g.sfDefs = map[string]*sfDef{}
			}
			g.sfDefs[key] = def
		}
		var ats []Term
		for _, a := range args {
			ats = append(ats, a.T)
		}
		for _, hs := range def.heapSorts {
			h := g.heap(c.st, hs)
			if g.noDefine == 0 {
				h = g.define("Hsf", h)
			}
			if hs == bvSort(8) && g.declared["bs_abs"] {
				g.noteAbsHeap(h.S)
			}
			ats = append(ats, h)
		}
		if len(ats) == 0 {
			return SVal{T: T(c.sortOfTy(rty), def.name), Ty: rty}
		}
		return SVal{T: app(c.sortOfTy(rty), def.name, ats...), Ty: rty}
	}
	// uninterpreted
	fname := "sf_" + mangle(sf.PkgPath+"."+sf.Name)
	var asorts []string
	var ats []Term
	for i, a := range args {
		asorts = append(asorts, c.sortOfTy(ptys[i]))
		ats = append(ats, a.T)
	}
	rs := c.sortOfTy(rty)
	g.declareFun(fname, asorts, rs)
	if len(ats) == 0 {
		return SVal{T: T(rs, fname), Ty: rty}
	}
	return SVal{T: app(rs, fname, ats...), Ty: rty}
}

// ghost returns the current term of a ghost variable.
func (g *Gen) ghost(st *State, gv *GhostVar, sort string) Term {
	key := gv.PkgPath + "::" + gv.Name
	if t, ok := st.ghosts[key]; ok {
		return t
	}
	name := "ghost0_" + mangle(key)
	g.declareConst(name, sort)
	t := T(sort, name)
	st.ghosts[key] = t
	return t
}
