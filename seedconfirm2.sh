#!/bin/bash
# usage: seedconfirm2.sh <worktree> <seeddir> <pkgdir> : confirm a seeded change in a scratch worktree
wt=$1; sd=$2; pkg=$3
export GOFLAGS=-mod=mod GOPROXY=off
cd $wt || exit 2
git checkout -q -- . 2>/dev/null
cp $sd/demo_test.go $pkg/zz_seed_demo_test.go
echo -n "clean demo: "; go test -vet=off -count=1 -run 'Demo|Seed' ./$pkg 2>&1 | tail -1 | cut -c1-100
git apply $sd/patch.diff 2>/dev/null || echo "APPLY FAILED"
echo -n "build: "; go build ./... 2>&1 | tail -1; echo
echo -n "seeded demo: "; go test -vet=off -count=1 -run 'Demo|Seed' ./$pkg 2>&1 | tail -1 | cut -c1-100
rm -f $pkg/zz_seed_demo_test.go
echo -n "seeded existing tests: "; go test -vet=off -count=1 ./$pkg 2>&1 | tail -1 | cut -c1-100
git checkout -q -- . ; git status --short | grep -v _seed | head -3
